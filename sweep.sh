#!/bin/bash
# usage: ./sweep.sh <tier> "<seeds>" [props...]   - runs checks under several VERIF_SEED values without touching evidence/
# prints one line per (property, seed); exit 1 if any run is not HELD.
cd "$(dirname "$0")"
tier=${1:-quick}; seeds=${2:-"0 1 2 3 4"}; shift 2
props=${@:-"C01 C02 C03 C04 C05 C06 C07 C08 C09 C10 C11 C12 C13 C14 C15 C16 C17 C18 C19 C20"}
bad=0
for p in $props; do for s in $seeds; do
  out=$(VERIF_SEED=$s VERIF_NO_EVIDENCE=1 ./check $p $tier 2>&1); rc=$?
  line=$(echo "$out" | grep "^SUMMARY" | cut -c1-220)
  echo "rc=$rc $line"
  if [ $rc -ne 0 ]; then bad=1; echo "$out" | grep -E "^VIOLATION|^  component|^INCONCLUSIVE" | cut -c1-400 | head -6; fi
done; done
exit $bad
