#!/venv/bin/python
"""Generates MANIFEST.json from the property modules (single source of truth)."""
import importlib, json, os, sys
sys.path.insert(0, os.path.dirname(os.path.abspath(__file__)))
sys.path.insert(0, os.environ.get("VERIF_REPO", "/repo"))
import warnings; warnings.simplefilter("ignore")
PROPS = ["C%02d" % i for i in range(1, 21)]
checks, na = [], []
for p in PROPS:
    path = os.path.join(os.path.dirname(os.path.abspath(__file__)), "vf", "props", p.lower() + ".py")
    if not os.path.exists(path):
        na.append({"property_id": p, "reason": "check not built yet (work in progress); the property is decidable by runtime monitoring, see DESIGN.md section 3"})
        continue
    m = importlib.import_module("vf.props." + p.lower())
    checks.append({
        "property_id": p,
        "quick_cmd": "./check %s quick" % p,
        "thorough_cmd": "./check %s thorough" % p,
        "evidence_file": "evidence/%s.json" % p,
        "replay_cmd_template": "./check %s --replay {path}" % p,
        "engine": "vf",
        "level_claimed": {"category": "exploration",
                          "text": getattr(m, "LEVEL_TEXT", "Held on the executions produced: the real code is run under seeded hostile workloads while runtime monitors (contracts, state fingerprints, history checkers against executable reference models) watch every call; no claim beyond the observed executions."),
                          "design_ref": "DESIGN.md section 3, %s" % p},
        "level_note": "; ".join(getattr(m, "ASSUMPTIONS", [])) or "none",
        "technique": m.TECHNIQUE,
    })
man = {
    "version": 1,
    "setup_cmd": "./setup.sh",
    "hooks": {"guard": "SKACTIVEML_VERIF",
              "enable": "no in-repo hooks: all monitors attach from outside at import time (class-level method wrapping, module attribute rebinding, sys.monitoring); ./check exports SKACTIVEML_VERIF=1 and PYTHONPATH=/repo so the current working tree is imported fresh in every run",
              "baseline_off_cmd": "./run_baseline.sh",
              "source_commits": [],
              "add_only": True},
    "engines": [{"name": "vf", "path": "vf/", "serves_properties": [c["property_id"] for c in checks],
                 "kind_free_text": "runtime monitoring: sharded seeded workloads against the real package, post-condition contracts on the real classes, structural state fingerprints, constructor-parameter write monitor, sys.monitoring step budget, recorded histories checked offline against executable reference models"}],
    "checks": checks,
    "not_applicable": na,
    "notes": "exit 0 held / 1 VIOLATION / 2 INCONCLUSIVE (deciding monitor not reached, required grid cell empty, watchdog). Genuine defects: known_findings.json (known = recorded, fixed = repaired by a fix: commit in /repo).",
}
json.dump(man, open(os.path.join(os.path.dirname(os.path.abspath(__file__)), "MANIFEST.json"), "w"), indent=1)
print("checks", len(checks), "not_applicable", len(na))
