#!/bin/bash
# Offline setup: runtime-contract library next to the repository's interpreter (git-ignored .deps).
cd "$(dirname "$0")"
if [ ! -d .deps/icontract ]; then
  PIP_NO_INDEX=1 /venv/bin/pip install -q --no-index --find-links /opt/veriftools/wheels --target .deps icontract >/dev/null 2>&1 \
    || echo "setup: icontract could not be installed (checks fall back to plain wrappers)"
fi
/venv/bin/python -c "import numpy, sklearn; print('setup ok: numpy', numpy.__version__, 'sklearn', sklearn.__version__)"
