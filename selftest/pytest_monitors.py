"""pytest plugin (own use, not a registered check): runs the repository's own tests with the C01/C02 query contracts and
the constructor-parameter write monitor switched on and prints what fired.  A contract that fires here is either too
strict (false-alarm audit of the oracles) or a defect the tests do not assert.
usage: cd /repo && PYTHONPATH=/repo:/verif:/verif/.deps /venv/bin/python -m pytest -q -p selftest.pytest_monitors skactiveml/pool
"""
import collections

from vf.monitors import contracts


def pytest_configure(config):
    import skactiveml.pool  # noqa
    import skactiveml.pool.multiannotator  # noqa
    n = contracts.install_pool_query_contracts()
    print("verif: query contracts installed on %d classes" % n)
    # function contracts of C16 / C17 / C18 (label predicates, aggregation, selection primitives)
    import skactiveml.classifier, skactiveml.regressor, skactiveml.stream, skactiveml.utils  # noqa
    from vf.props import c16, c17, c18
    for m in (c16, c17, c18):
        m.setup()


def pytest_sessionfinish(session, exitstatus):
    recs = contracts.drain()
    c = collections.Counter()
    ex = {}
    for r in recs:
        for key in ("c01", "c02"):
            for kind, detail in r.get(key) or []:
                c[(key, r["cls"], kind)] += 1
                ex.setdefault((key, r["cls"], kind), detail)
    print("\nverif: %d monitored query calls, contract evaluations %s" % (len(recs), dict(contracts.EVALS)))
    for k, v in sorted(c.items()):
        print("verif-fired %5d %s  e.g. %s" % (v, k, str(ex[k])[:160]))
    from vf.monitors import fcontracts as fc
    c2 = collections.Counter()
    ex2 = {}
    for v in fc.drain():
        c2[(v["component"], v["kind"])] += 1
        ex2.setdefault((v["component"], v["kind"]), v["detail"])
    print("verif: function-contract evaluations %s" % dict(fc.EVALS))
    for k, v in sorted(c2.items()):
        print("verif-fired-fn %5d %s  e.g. %s" % (v, k, str(ex2[k])[:300]))
