#!/bin/bash
# usage: selftest/mutant.sh <patch-file | revert:<commit>> <tier> <Cxx> [Cxx...]
# Applies a property-breaking change to a scratch worktree of /repo (never to /repo itself),
# runs the given checks against it and reports which of them fire. The worktree is removed afterwards.
cd "$(dirname "$0")/.."
what=$1; tier=$2; shift 2
[[ $what != revert:* && $what != /* ]] && what="$PWD/$what"
wt=$(mktemp -d /tmp/skaml_mut_XXXXXX)
git -C /repo worktree add -q --detach "$wt" HEAD >/dev/null 2>&1 || { echo "worktree failed"; exit 3; }
trap 'git -C /repo worktree remove --force "$wt" >/dev/null 2>&1; rm -rf "$wt"' EXIT
if [[ $what == revert:* ]]; then
  git -C "$wt" show "${what#revert:}" | git -C "$wt" apply -R || { echo "APPLY-FAILED $what"; exit 3; }
else
  git -C "$wt" apply "$what" || { echo "APPLY-FAILED $what"; exit 3; }
fi
for p in "$@"; do
  out=$(VERIF_REPO=$wt VERIF_NO_EVIDENCE=1 ./check $p $tier 2>&1); rc=$?
  echo "== $what $p rc=$rc"
  echo "$out" | grep -E "^VIOLATION|^  component|^INCONCLUSIVE" | head -8
done
