#!/venv/bin/python
"""usage: mkpatch.py <name> <relative-file> <<< JSON [[old, new], ...]
Creates selftest/patches/<name>.diff by editing a scratch worktree of /repo (removed afterwards)."""
import json, os, subprocess, sys, tempfile
name, rel = sys.argv[1], sys.argv[2]
pairs = json.load(sys.stdin)
wt = tempfile.mkdtemp(prefix="skaml_mk_")
subprocess.check_call(["git", "-C", "/repo", "worktree", "add", "-q", "--detach", wt, "HEAD"])
try:
    p = os.path.join(wt, rel)
    s = open(p).read()
    for pair in pairs:
        old, new = pair[0], pair[1]
        nth = pair[2] if len(pair) > 2 else 1          # 1-based occurrence
        assert s.count(old) >= nth, "pattern not found: %r" % old[:60]
        pos = -1
        for _ in range(nth):
            pos = s.index(old, pos + 1)
        s = s[:pos] + new + s[pos + len(old):]
    open(p, "w").write(s)
    d = subprocess.check_output(["git", "-C", wt, "diff"]).decode()
    out = os.path.join(os.path.dirname(os.path.abspath(__file__)), "patches", name + ".diff")
    os.makedirs(os.path.dirname(out), exist_ok=True)
    open(out, "w").write(d)
    print("wrote", out, len(d.splitlines()), "lines")
finally:
    subprocess.call(["git", "-C", "/repo", "worktree", "remove", "--force", wt])
