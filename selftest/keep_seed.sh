#!/bin/bash
# usage: selftest/keep_seed.sh <outdir> <N> <seed-id> "<ran / result text>"
cd "$(dirname "$0")/.."
src=$1; n=$2; id=$3; note=$4
mkdir -p seeded/$id
cp $src/patch$n.diff seeded/$id/patch.diff
cp $src/demo$n.py seeded/$id/demo.py
/venv/bin/python - "$src/meta$n.json" "seeded/$id/meta.json" "$note" <<'PY'
import json, sys
m = json.load(open(sys.argv[1]))
out = {"breaks_property": m.get("property"), "summary": m.get("summary"), "needs_to_manifest": m.get("needs_to_manifest"),
       "files": m.get("files"), "author_tests_run": m.get("tests_run"), "confirmed_and_ran": sys.argv[3]}
json.dump(out, open(sys.argv[2], "w"), indent=1)
PY
echo kept seeded/$id
