#!/venv/bin/python
"""Regenerates seeded/README.md from seeded/*/meta.json."""
import glob, json, os
root = os.path.join(os.path.dirname(os.path.abspath(__file__)), "..", "seeded")
rows = []
for d in sorted(glob.glob(os.path.join(root, "*", "meta.json"))):
    m = json.load(open(d))
    rows.append((os.path.basename(os.path.dirname(d)), m))
with open(os.path.join(root, "README.md"), "w") as f:
    f.write("# Property-breaking changes written by independent sub-agents\n\n"
            "Each sub-agent got only the text of one property and a scratch worktree of /repo (nothing from /verif) and was asked\n"
            "for realistic changes that break the property, still pass the existing tests and need something specific to manifest.\n"
            "Every change below was confirmed in a scratch worktree (`selftest/eval_seed.sh`): the demonstration passes on the\n"
            "unchanged tree and fails with the change, the tests of the touched sub-packages still pass, and the checks were run\n"
            "against the changed tree. None of these changes was ever applied to /repo. `MISSED` entries record checks that did not\n"
            "fire at first and what was strengthened.\n\n"
            "| seeded change | property | what it needs to manifest | result |\n|---|---|---|---|\n")
    for name, m in rows:
        f.write("| `%s` | %s | %s | %s |\n" % (name, m.get("breaks_property"), (m.get("needs_to_manifest") or "").replace("|", "/").replace("\n", " ")[:300],
                                          (m.get("confirmed_and_ran") or "").replace("|", "/").replace("\n", " ")))
print(len(rows), "seeded changes")
