"""RandomVariableUncertaintyBudgetManager.update depends on the chunking.

Commit 53268a95 made VariableUncertaintyBudgetManager.update account the
budget per instance.  RandomVariableUncertaintyBudgetManager.update in the same
file carries the copied loop: it tests `budget_ > u_t_ / w` with the estimate
from before the chunk for every instance and only afterwards adds the whole
chunk, so `theta_` depends on how the stream is cut into chunks.
"""
import sys

import numpy as np

from skactiveml.stream.budgetmanager import (
    RandomVariableUncertaintyBudgetManager,
    VariableUncertaintyBudgetManager,
)

N = 40
cands = np.zeros((N, 1))
queried = [0, 1, 2, 3, 4, 5, 20, 21, 22]

ok = True
for cls, kw in [
    (VariableUncertaintyBudgetManager, {}),
    (RandomVariableUncertaintyBudgetManager, {"random_state": 0}),
]:
    one_chunk = cls(budget=0.1, w=10, **kw)
    one_chunk.update(cands, np.array(queried))
    per_instance = cls(budget=0.1, w=10, **kw)
    for i in range(N):
        q = np.array([0]) if i in queried else np.array([], dtype=int)
        per_instance.update(cands[i : i + 1], q)
    same = np.isclose(one_chunk.theta_, per_instance.theta_) and np.isclose(
        one_chunk.u_t_, per_instance.u_t_
    )
    print(
        cls.__name__,
        "theta_ one chunk:", one_chunk.theta_,
        "theta_ per instance:", per_instance.theta_,
        "OK" if same else "MISMATCH",
    )
    if cls is RandomVariableUncertaintyBudgetManager and not same:
        ok = False

print("PASS" if ok else "FAIL")
sys.exit(0 if ok else 1)
