"""96018b62: check_indices maps negative indices only for 1-d index arrays.
Two-dimensional index arrays (one column per indexed dimension) still keep
negative entries: duplicates are not detected / removed and out-of-range
negative indices are accepted."""
import sys

import numpy as np

from skactiveml.utils import check_indices

A = np.arange(12).reshape(3, 4)
problems = []

# 1-d reference behaviour introduced by the fix
try:
    check_indices([-1, 2], A, unique="check_unique")
    problems.append("1-d duplicates [-1, 2] not detected")
except ValueError:
    pass

# (0, -1) and (0, 3) denote the same entry A[0, 3].
try:
    check_indices([[0, -1], [0, 3]], A, unique="check_unique")
    problems.append("2-d duplicates [[0,-1],[0,3]] pass 'check_unique'")
except ValueError:
    pass

idx = check_indices([[0, -1], [0, 3]], A, unique=True)
if len(idx[0]) != 1:
    problems.append(f"unique=True returns the entry A[0,3] twice: {idx}")
if any(np.any(i < 0) for i in idx):
    problems.append(f"negative indices are returned: {idx}")

# an out-of-range negative row index is rejected for 1-d, accepted for 2-d
try:
    check_indices([-4], A)
    problems.append("1-d index -4 accepted for 3 rows")
except ValueError:
    pass
try:
    check_indices([[-4, 0]], A)
    problems.append("2-d index (-4, 0) accepted for an array with 3 rows")
except ValueError:
    pass

# tuple `dim` with a single dimension
r = check_indices([[-1], [3]], A, dim=(1,), unique=True)
if len(r[0]) != 1:
    problems.append(f"dim=(1,): column -1 and 3 both returned: {r}")

if problems:
    print("FAIL")
    for p in problems:
        print(" -", p)
    sys.exit(1)
print("PASS")
