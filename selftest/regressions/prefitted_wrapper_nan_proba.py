"""b73946e0: SklearnClassifier.predict raises for a wrapper around a pre-fitted
estimator whose predict_proba contains NaN (worked before the fix)."""
import sys
import warnings

import numpy as np
from sklearn.naive_bayes import GaussianNB

from skactiveml.classifier import SklearnClassifier

warnings.filterwarnings("ignore")
rng = np.random.RandomState(0)
X = rng.randn(20, 2)
y = (X[:, 0] > 0).astype(float)

# GaussianNB fitted on a single sample has zero variances -> NaN probabilities.
est = GaussianNB().fit(X[:1], y[:1])
assert np.isnan(est.predict_proba(X[:3])).any()
clf = SklearnClassifier(est)  # wrapper around a pre-fitted estimator, no fit
try:
    y_pred = clf.predict(X[:6])
except Exception as e:  # AttributeError: ... no attribute '_label_counts'
    print("FAIL: predict of the pre-fitted wrapper raised", repr(e))
    sys.exit(1)
if not np.array_equal(y_pred, est.predict(X[:6])):
    print("FAIL: unexpected predictions", y_pred)
    sys.exit(1)
print("PASS", y_pred)
