#!/bin/bash
# usage: selftest/eval_seed.sh <dir-with-patchN.diff/demoN.py/metaN.json> <N> <tier> <Cxx> [Cxx...]
# Confirms in a scratch worktree (removed afterwards) that the demonstration passes without and fails with the change,
# that the tests of the touched sub-packages still pass with it, and runs the given checks against the changed tree.
cd "$(dirname "$0")/.."
dir=$1; n=$2; tier=$3; shift 3
patch=$dir/patch$n.diff; demo=$dir/demo$n.py
wt=$(mktemp -d /tmp/skaml_seed_XXXXXX)
git -C /repo worktree add -q --detach "$wt" HEAD >/dev/null 2>&1 || { echo "worktree failed"; exit 3; }
trap 'git -C /repo worktree remove --force "$wt" >/dev/null 2>&1; rm -rf "$wt"' EXIT
PYTHONPATH=$wt /venv/bin/python -W ignore $demo >/dev/null 2>&1; echo "demo-clean rc=$?"
git -C "$wt" apply "$patch" || { echo "APPLY-FAILED"; exit 3; }
PYTHONPATH=$wt /venv/bin/python -W ignore $demo >/dev/null 2>&1; echo "demo-patched rc=$?"
pk=$(git -C "$wt" diff --name-only | sed -E 's#(skactiveml/[a-z]+).*#\1#' | sort -u | tr '\n' ' ')
if echo "$pk" | grep -q "skactiveml/base\|skactiveml/utils"; then pk="skactiveml"; fi
if [ -z "$SKIP_TESTS" ]; then
  res=$(cd $wt && PYTHONPATH=$wt /venv/bin/python -m pytest -q -p no:cacheprovider -n 6 $pk 2>&1 | tail -8 | grep -E "passed|failed|FAILED" | tr '\n' ' ')
  echo "tests[$pk]: $res"
fi
for p in "$@"; do
  out=$(VERIF_REPO=$wt VERIF_NO_EVIDENCE=1 ./check $p $tier 2>&1); rc=$?
  echo "== check $p $tier rc=$rc"
  echo "$out" | grep -E "^VIOLATION|^  component|^INCONCLUSIVE" | cut -c1-330 | head -6
done
