import os
import sys

from vf import core


def main():
    args = sys.argv[1:]
    if not args:
        print("usage: check <Cxx> [quick|thorough] | check <Cxx> --replay <file>")
        return 2
    prop = args[0].upper()
    if len(args) >= 3 and args[1] == "--replay":
        return core.replay(prop, args[2])
    tier = args[1] if len(args) > 1 else os.environ.get("VERIF_TIER", "quick")
    seed = int(os.environ.get("VERIF_SEED", "0"))
    only = os.environ.get("VERIF_ONLY")
    return core.run_property(prop, tier, seed, only_ids=set(only.split(",")) if only else None)


if __name__ == "__main__":
    sys.exit(main())
