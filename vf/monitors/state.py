"""Structural fingerprints: canonical nested tuples of arbitrary objects.

ndarrays -> dtype/shape/SHA-1 of the bytes, RandomState -> full get_state(),
containers recursively, estimators and other objects via __dict__.  `diff` reports
the attribute paths at which two fingerprints differ (the witness)."""
import collections
import hashlib
import pickle
import types

import numpy as np


def fp(o, depth=0, seen=None, skip=()):
    if seen is None:
        seen = frozenset()
    if depth > 14:
        return ("deep",)
    if o is None or isinstance(o, (bool, int, str, bytes)):
        return (type(o).__name__, o)
    if isinstance(o, float):
        return ("float", "nan" if o != o else repr(o))
    if isinstance(o, (np.floating, np.integer, np.bool_)):
        return fp(o.item(), depth, seen, skip)
    if isinstance(o, np.ndarray):
        if o.dtype == object:
            return ("ndarray-obj", o.shape, tuple(fp(x, depth + 1, seen, skip) for x in o.ravel().tolist()))
        return ("ndarray", str(o.dtype), o.shape, hashlib.sha1(np.ascontiguousarray(o).tobytes()).hexdigest())
    if isinstance(o, np.random.RandomState):
        s = o.get_state()
        return ("RandomState", s[0], hashlib.sha1(s[1].tobytes()).hexdigest(), int(s[2]), int(s[3]), repr(s[4]))
    if isinstance(o, np.random.Generator):
        return ("Generator", repr(o.bit_generator.state))
    if isinstance(o, (list, tuple, collections.deque)):
        return (type(o).__name__, tuple(fp(x, depth + 1, seen, skip) for x in o))
    if isinstance(o, dict):
        return ("dict", tuple(sorted(((repr(k), fp(v, depth + 1, seen, skip)) for k, v in o.items()
                                       if k not in skip), key=lambda t: t[0])))
    if isinstance(o, (set, frozenset)):
        return ("set", tuple(sorted(repr(x) for x in o)))
    if isinstance(o, (types.FunctionType, types.BuiltinFunctionType, types.MethodType, type)):
        return ("callable", getattr(o, "__module__", ""), getattr(o, "__qualname__", repr(o)))
    if id(o) in seen:
        return ("cycle",)
    seen = seen | {id(o)}
    if hasattr(o, "tocsr") and hasattr(o, "toarray"):
        return ("sparse", fp(o.toarray(), depth + 1, seen, skip))
    d = getattr(o, "__dict__", None)
    if d is not None:
        return ("obj", type(o).__module__, type(o).__qualname__, fp(d, depth + 1, seen, skip))
    try:
        return ("pickle", hashlib.sha1(pickle.dumps(o)).hexdigest())
    except Exception:
        return ("repr", type(o).__qualname__)


def diff(a, b, path=""):
    """List of (path, a, b) for differing leaves."""
    if a == b:
        return []
    if isinstance(a, tuple) and isinstance(b, tuple) and a and b and a[0] == b[0] == "dict":
        da, db = dict(a[1]), dict(b[1])
        out = [("%s/%s" % (path, k.strip("'")), "present", "absent") for k in sorted(set(da) - set(db))]
        out += [("%s/%s" % (path, k.strip("'")), "absent", "present") for k in sorted(set(db) - set(da))]
        for k in sorted(set(da) & set(db)):
            out += diff(da[k], db[k], "%s/%s" % (path, k.strip("'")))
        return out
    if isinstance(a, tuple) and isinstance(b, tuple) and a and b and a[0] == b[0] == "obj":
        return diff(a[3], b[3], path) if a[1:3] == b[1:3] else [(path, a[1:3], b[1:3])]
    if (isinstance(a, tuple) and isinstance(b, tuple) and a and b and a[0] == b[0]
            and a[0] in ("list", "tuple", "deque") and len(a[1]) == len(b[1])):
        out = []
        for i, (x, y) in enumerate(zip(a[1], b[1])):
            out += diff(x, y, "%s[%d]" % (path, i))
        return out
    return [(path, str(a)[:90], str(b)[:90])]


def _param_value_fp(v, depth=0):
    """Parameter values: nested estimators count by class and by their own parameters only (their
    fitted attributes are not part of what get_params reports)."""
    if hasattr(v, "get_params") and not isinstance(v, type):
        try:
            p = v.get_params(deep=False)
        except Exception:
            return fp(v)
        return ("estimator", type(v).__module__, type(v).__qualname__,
                tuple(sorted((k, _param_value_fp(x, depth + 1)) for k, x in p.items())))
    if isinstance(v, (list, tuple)) and depth < 6:
        return (type(v).__name__, tuple(_param_value_fp(x, depth + 1) for x in v))
    if isinstance(v, dict) and depth < 6:
        return ("dict", tuple(sorted((repr(k), _param_value_fp(x, depth + 1)) for k, x in v.items())))
    return fp(v)


def params_fp(est):
    """Fingerprint of get_params(deep=True) including the contents of dict-valued parameters."""
    try:
        p = est.get_params(deep=True)
    except Exception as e:  # get_params itself broken
        return ("get_params-raises", repr(e)[:100])
    return ("dict", tuple(sorted((repr(k), _param_value_fp(v)) for k, v in p.items())))


def fitted_fp(est, skip=()):
    """Fingerprint of the fitted (trailing underscore) attributes of an estimator."""
    d = {k: v for k, v in vars(est).items() if k.endswith("_") and not k.startswith("__") and k not in skip}
    return fp(d, skip=skip)
