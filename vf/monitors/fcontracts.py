"""Function-level runtime contracts (icontract) on the utility functions.

`install(module, name, post, snapshots)` decorates the real function with
`icontract.snapshot` / `icontract.ensure` (named condition functions, explicit error=),
and rebinds every attribute in every loaded `skactiveml.*` module that *is* the original
function (the utilities are imported by name into ~20 modules), so library-internal
calls are checked too.  The conditions are *collecting*: they evaluate an oracle, record a
violation with its witness and return True, so the observed call is never aborted.
Every contract counts its evaluations (EVALS); zero evaluations => inconclusive.
"""
import functools
import inspect
import sys

try:
    import icontract
    HAVE_ICONTRACT = True
except Exception:  # pragma: no cover - fall back to a plain wrapper
    icontract = None
    HAVE_ICONTRACT = False

VIOLS = []
EVALS = {}
REBOUND = {}


class ContractBroken(Exception):
    pass


def record(contract, kind, detail, component=None):
    VIOLS.append({"component": component or contract, "kind": kind, "detail": detail})


def count(name, n=1):
    EVALS[name] = EVALS.get(name, 0) + n


def drain():
    out = list(VIOLS)
    del VIOLS[:]
    return out


def drain_evals():
    out = dict(EVALS)
    EVALS.clear()
    return out


def _rebind(orig, new):
    n = 0
    for mname, mod in list(sys.modules.items()):
        if mod is None or not mname.startswith("skactiveml"):
            continue
        for k, v in list(vars(mod).items()):
            if v is orig:
                setattr(mod, k, new)
                n += 1
    return n


def decorate(fn, name, post, snapshot=None):
    """post(args: dict, result, old) -> None (records violations itself)."""
    sig = inspect.signature(fn)

    variadic = any(p.kind in (p.VAR_KEYWORD, p.VAR_POSITIONAL) for p in sig.parameters.values())
    # icontract resolves condition arguments by name and cannot hand **kwargs of the decorated function to
    # a condition under its own name, so variadic functions (rand_argmax(a, random_state, **argmax_kwargs))
    # get the equivalent plain wrapper below
    if HAVE_ICONTRACT and not variadic:
        params = list(sig.parameters)

        # icontract resolves condition arguments by *name*; build conditions with the function's own
        # parameter names through a generic **kwargs adapter
        def cond(**kw):
            result = kw.pop("result")
            old = kw.pop("OLD", None)
            count(name)
            try:
                post(kw, result, getattr(old, "snap", None) if old is not None else None)
            except Exception as e:  # oracle failure is a harness problem: surface, do not hide
                record(name, "oracle-error", repr(e)[:200])
            return True

        cond.__signature__ = inspect.Signature(
            [inspect.Parameter(p, inspect.Parameter.POSITIONAL_OR_KEYWORD) for p in params]
            + [inspect.Parameter("result", inspect.Parameter.POSITIONAL_OR_KEYWORD),
               inspect.Parameter("OLD", inspect.Parameter.POSITIONAL_OR_KEYWORD)])
        wrapped = icontract.ensure(cond, error=ContractBroken)(fn)

        def snap(**kw):
            return snapshot(kw) if snapshot is not None else None

        snap.__signature__ = inspect.Signature(
            [inspect.Parameter(p, inspect.Parameter.POSITIONAL_OR_KEYWORD) for p in params])
        wrapped = icontract.snapshot(snap, name="snap")(wrapped)
        return wrapped

    @functools.wraps(fn)
    def wrapper(*a, **k):
        ba = sig.bind(*a, **k)
        ba.apply_defaults()
        old = snapshot(dict(ba.arguments)) if snapshot is not None else None
        result = fn(*a, **k)
        count(name)
        try:
            post(dict(ba.arguments), result, old)
        except Exception as e:
            record(name, "oracle-error", repr(e)[:200])
        return result
    return wrapper


def install(module, fname, post, snapshot=None, label=None):
    orig = getattr(module, fname)
    if getattr(orig, "__verif_contract__", False):
        return 0
    new = decorate(orig, label or fname, post, snapshot)
    try:
        new.__verif_contract__ = True
    except Exception:
        pass
    setattr(module, fname, new)
    REBOUND[label or fname] = _rebind(orig, new)
    return REBOUND[label or fname]


def install_method(cls, mname, post, snapshot=None, label=None):
    orig = vars(cls)[mname]
    if getattr(orig, "__verif_contract__", False):
        return
    new = decorate(orig, label or "%s.%s" % (cls.__name__, mname), post, snapshot)
    try:
        new.__verif_contract__ = True
    except Exception:
        pass
    setattr(cls, mname, new)
