"""Constructor-parameter write monitor ("assert where the state advances").

`BaseEstimator.__setattr__` is wrapped.  A write is recorded as an event when
  (a) the attribute is a constructor parameter of the object's class,
  (b) the writing frame is library code under <repo>/skactiveml/ and is not
      __init__ / set_params, and
  (c) the target object is *watched* (caller-owned for the monitored call: the
      strategy, the model arguments and everything reachable from their
      get_params(deep=True); identified by id).
Clones made inside the library are not watched and are ignored.  The event carries
file:line of the writer.  This also catches writes that store an equal value.
"""
import os
import sys

from sklearn.base import BaseEstimator

EVENTS = []
WATCHED = {}       # id(obj) -> label
_installed = [False]
_REPO = os.environ.get("VERIF_REPO", "/repo").rstrip("/") + "/skactiveml/"
_SKIP_FUNCS = {"__init__", "set_params", "_set_params", "__setstate__"}


def install():
    if _installed[0]:
        return
    orig = BaseEstimator.__setattr__ if "__setattr__" in vars(BaseEstimator) else object.__setattr__

    def __setattr__(self, name, value, _orig=orig):
        if WATCHED and id(self) in WATCHED:
            try:
                params = type(self)._get_param_names()
            except Exception:
                params = ()
            if name in params:
                f = sys._getframe(1)
                fn = f.f_code.co_name
                path = f.f_code.co_filename
                if fn not in _SKIP_FUNCS and path.startswith(_REPO) and "/tests/" not in path:
                    EVENTS.append({"obj": WATCHED[id(self)], "cls": type(self).__name__, "param": name,
                                   "where": "%s:%d" % (path[len(_REPO):], f.f_lineno), "func": fn})
        _orig(self, name, value)

    BaseEstimator.__setattr__ = __setattr__
    _installed[0] = True


def watch(obj, label, depth=0):
    """Watch an estimator and every estimator reachable from its parameters."""
    if depth > 4:
        return
    if isinstance(obj, BaseEstimator):
        if id(obj) in WATCHED:
            return
        WATCHED[id(obj)] = label
        try:
            params = obj.get_params(deep=False)
        except Exception:
            params = {}
        for k, v in params.items():
            watch(v, "%s.%s" % (label, k), depth + 1)
    elif isinstance(obj, (list, tuple)):
        for i, v in enumerate(obj):
            watch(v[1] if isinstance(v, tuple) and len(v) == 2 else v, "%s[%d]" % (label, i), depth + 1)


def reset():
    WATCHED.clear()
    del EVENTS[:]


def drain():
    out = list(EVENTS)
    del EVENTS[:]
    return out
