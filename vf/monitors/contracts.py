"""Post-condition contracts installed on the real classes (class-level wrapping).

`install_pool_query_contracts()` wraps `query` of every concrete single-annotator pool
strategy class (including the two pool wrappers, whose `query` is a signature-matching
descriptor).  The wrapper derives the admissible candidate set from the *raw* call
arguments with its own missing-label predicate, calls the real method and evaluates
the C01 / C02 post-conditions on whatever comes back - on every call, including the
nested calls made by wrappers.  The contracts are *collecting*: a broken condition is
recorded with its witness in `CALLS` and the call returns normally.
"""
import functools
import inspect
import math

import numpy as np

from vf import oracles
from vf.monitors import state as st

CALLS = []          # one record per monitored call (drained by the property drivers)
EVALS = {}          # contract name -> number of evaluations
CFG = {"side_effects": False}
_depth = [0]
_installed = set()

SAMPLING = {"RandomSampling", "Badge", "Falcun"}


def count(name, n=1):
    EVALS[name] = EVALS.get(name, 0) + n


def drain():
    out = list(CALLS)
    del CALLS[:]
    return out


def drain_evals():
    out = dict(EVALS)
    EVALS.clear()
    return out


def all_subclasses(cls, seen=None):
    seen = set() if seen is None else seen
    for s in cls.__subclasses__():
        if s not in seen:
            seen.add(s)
            yield s
            yield from all_subclasses(s, seen)


def _expected_k(self, bs, cset):
    k = min(bs, len(cset))
    if type(self).__name__ == "SubSamplingWrapper":
        mc = self.max_candidates
        if isinstance(mc, float):
            from fractions import Fraction
            mc = math.ceil(Fraction(repr(mc)) * len(cset))      # exact: 25 * 0.28 is 7, not 7.000000000000001
        if isinstance(mc, int):
            k = min(k, min(mc, len(cset)))
    return k


def _pool_wrapper(orig, clsname):
    sig = inspect.signature(orig)

    @functools.wraps(orig)
    def query(self, *args, **kwargs):
        try:
            ba = sig.bind(self, *args, **kwargs)
            a = dict(ba.arguments)
            a.update(a.pop("query_kwargs", {}) or {})
            X, y = a["X"], a["y"]
            cands = a.get("candidates")
            bs = a.get("batch_size", 1)
            ru = bool(a.get("return_utilities", False))
            ml = getattr(self, "missing_label", np.nan)
            cset, ncols = oracles.candidate_set(np.asarray(X), np.asarray(y), cands, ml)
            pre_ok = isinstance(bs, (int, np.integer)) and bs >= 1
        except Exception:
            pre_ok = False
        rec = {"cls": type(self).__name__, "depth": _depth[0], "obj": id(self)}
        _depth[0] += 1
        try:
            out = orig(self, *args, **kwargs)
        except BaseException as e:
            rec["exception"] = "%s: %s" % (type(e).__name__, str(e)[:200])
            rec["exc_type"] = type(e).__name__
            CALLS.append(rec)
            raise
        finally:
            _depth[0] -= 1
        if pre_ok:
            try:
                idx, U = (out if ru else (out, None))
                k = _expected_k(self, int(bs), cset)
                rec["k"] = k
                rec["n_cand"] = len(cset)
                rec["bs"] = int(bs)
                rec["c01"] = oracles.check_indices(idx, cset, int(bs), expected_k=k)
                count("C01.query-contract")
                if ru:
                    sel = "sampling" if type(self).__name__ in SAMPLING else "max"
                    rec["c02"] = oracles.check_utilities(idx, U, cset, ncols, int(bs), sel, expected_k=k)
                    count("C02.utilities-contract")
            except Exception as e:  # malformed result that the oracle cannot even parse
                rec["c01"] = rec.get("c01", []) + [("malformed-result", repr(e)[:200])]
            CALLS.append(rec)
        return out

    query.__verif_wrapped__ = True
    return query


def install_pool_query_contracts():
    from skactiveml.base import SingleAnnotatorPoolQueryStrategy
    n = 0
    for cls in all_subclasses(SingleAnnotatorPoolQueryStrategy):
        if "/tests/" in (inspect.getsourcefile(cls) or ""):
            continue
        q = vars(cls).get("query")
        if q is None or cls in _installed:
            continue
        if inspect.isfunction(q):
            if getattr(q, "__isabstractmethod__", False):
                continue
            setattr(cls, "query", _pool_wrapper(q, cls.__name__))
        elif hasattr(q, "fn") and inspect.isfunction(q.fn):   # match_signature descriptor
            q.fn = _pool_wrapper(q.fn, cls.__name__)
        else:
            continue
        _installed.add(cls)
        n += 1
    return n
