"""Logical step budget (bounded progress instead of "terminates").

`sys.monitoring` JUMP events are enabled *locally* on the code objects of the
`skactiveml` package only, so numpy / scikit-learn run at full speed.  Backward
jumps (loop back-edges) are counted per monitored API call; when the count of one
call exceeds the budget the callback raises StepBudgetExceeded inside the looping
function, with function and line as witness.  The verdict therefore never depends
on wall-clock time.

StepBudgetExceeded derives from BaseException so that the library's own
`except Exception` fall-backs cannot swallow it.
"""
import sys
import types

TOOL = 3
BUDGET = 3_000_000


class StepBudgetExceeded(BaseException):
    pass


state = {"n": 0, "budget": BUDGET, "where": None, "max": 0, "installed": 0, "calls": 0}


def _on_jump(code, src, dst):
    if dst < src:
        state["n"] += 1
        if state["n"] > state["budget"]:
            state["where"] = "%s (%s:%d)" % (code.co_qualname, code.co_filename.split("/")[-1],
                                              _line(code, dst))
            raise StepBudgetExceeded(state["where"])


def _line(code, offset):
    try:
        for start, end, line in code.co_lines():
            if start <= offset < end:
                return line or -1
    except Exception:
        pass
    return -1


def _walk(code, seen):
    if code in seen:
        return
    seen.add(code)
    yield code
    for c in code.co_consts:
        if isinstance(c, types.CodeType):
            yield from _walk(c, seen)


def _codes_of_module(mod, seen):
    import inspect
    for obj in list(vars(mod).values()):
        f = obj
        if inspect.isfunction(f) and (f.__module__ or "").startswith("skactiveml"):
            yield from _walk(f.__code__, seen)
        elif inspect.isclass(obj) and (obj.__module__ or "").startswith("skactiveml"):
            for o2 in list(vars(obj).values()):
                f = o2.__func__ if isinstance(o2, (staticmethod, classmethod)) else o2
                if isinstance(f, property):
                    f = f.fget
                f = getattr(f, "__wrapped__", f)
                if inspect.isfunction(f):
                    yield from _walk(f.__code__, seen)


_seen = set()


def install():
    """(Re-)instrument every loaded skactiveml module. Idempotent."""
    mon = sys.monitoring
    if mon.get_tool(TOOL) is None:
        mon.use_tool_id(TOOL, "verif-steps")
        mon.register_callback(TOOL, mon.events.JUMP, _on_jump)
    n = 0
    for name, mod in list(sys.modules.items()):
        if mod is None or not name.startswith("skactiveml") or ".tests" in name:
            continue
        for code in _codes_of_module(mod, _seen):
            if "/tests/" in code.co_filename:
                continue
            try:
                mon.set_local_events(TOOL, code, mon.events.JUMP)
                n += 1
            except Exception:
                pass
    state["installed"] += n
    return state["installed"]


def begin(budget=None):
    """Start of one monitored API call."""
    state["n"] = 0
    state["where"] = None
    state["budget"] = budget or BUDGET
    state["calls"] += 1


def end():
    n = state["n"]
    if n > state["max"] and n <= state["budget"]:
        state["max"] = n
    state["n"] = 0
    return n


def guarded(fn, *a, **kw):
    """Call fn under a fresh step budget. Returns (result, steps). Lets exceptions through."""
    begin()
    try:
        return fn(*a, **kw)
    finally:
        end()
