"""Debug helper: python -m vf.dbg <replay.json>  - rebuilds a pool case and runs it with a traceback."""
import json, sys, traceback, warnings
import numpy as np
warnings.simplefilter("ignore")
from vf import poolcase
np.set_printoptions(precision=4, linewidth=150)
rp = json.load(open(sys.argv[1]))
desc = rp["case"]
c = poolcase.build(desc)
print(poolcase.cell_summary(c))
print("X=", repr(c.X)); print("y=", repr(c.y)); print("cand=", repr(c.candidates)); print("bs", c.bs)
qs = c.entry.make(c.strategy_seed)
kw = poolcase.call_kwargs(c, return_utilities=True)
try:
    out = qs.query(**kw)
    print("idx", out[0]); print("U", out[1])
except Exception:
    traceback.print_exc()
