"""Named trigger predicates over the *input* of a case.

A violation record is (component, kind, trigger).  `classify` names the trigger: the
first predicate registered for (property, component, kind) that holds on the case gives
its name, otherwise the trigger is "any".  Known findings (known_findings.json) are
keyed by these names, so a finding only suppresses the exact mechanism it was written
for: the same kind outside the predicate, another kind, or another component still
alarms.
"""

RULES = []   # (property or None, component, kind or None, name, predicate(case, violation))


def rule(prop, component, kind, name):
    def deco(fn):
        RULES.append((prop, component, kind, name, fn))
        return fn
    return deco


def classify(prop, v, case):
    for p, comp, kind, name, pred in RULES:
        if (p is None or p == prop) and comp == v.get("component") and (kind is None or kind == v.get("kind")):
            try:
                if pred(case, v):
                    return name
            except Exception:
                pass
    return "any"


# ---- RegressionTreeBasedAL (G6 b/c): the leaf allocation path is taken with >= 2 labelled samples
for _m in ("random", "diversity", "representativity"):
    def _rt(case, v, _m=_m):
        return v.get("n_labeled_now", getattr(case, "n_labeled", 0)) >= 2 and (
            case.entry.name == "RT_" + _m or (_m == "representativity" and case.entry.name == "RT_repr_iter1"))
    rule(None, "RegressionTreeBasedAL", None, "tree-path/%s (>=2 labelled)" % _m)(_rt)


# ---- density / cognitive stream strategies (C04): inside one query() they ask the budget manager
# once per instance (simulation) without committing the earlier instances of the same chunk, so
# within a chunk every instance is judged against the same stale budget estimate
_CHUNK_STALE = ["StreamDensityBasedAL", "CognitiveDualQueryStrategy", "CognitiveDualQueryStrategyRan",
                "CognitiveDualQueryStrategyFixUn", "CognitiveDualQueryStrategyVarUn",
                "CognitiveDualQueryStrategyRanVarUn"]
for _n in _CHUNK_STALE:
    def _chunked(case, v):
        return isinstance(case, dict) and case.get("chunking") != "one"
    rule("C04", _n, None, "query/update chunks longer than one instance")(_chunked)


# ---- cognitive dual strategies (C10, G16): update() with force_full_budget=False hands a *filtered*
# candidate list to the budget manager while queried_indices index the unfiltered chunk
for _n in _CHUNK_STALE[1:]:
    def _cog_update(case, v):
        return isinstance(case, dict) and case.get("chunking") != "one" and not case.get("ffb")
    rule("C10", _n, "update-raises:IndexError", "force_full_budget=False and chunk longer than one instance")(_cog_update)


# ---- committee strategies with a scikit-learn BaggingClassifier (C09, G15-K): the bagging members are trained on
# class *indices*; _aggregate_predict_probas matches the members' classes_ against the ensemble's class labels, which
# only works by accident when the labels are 0..K-1 (and silently mis-maps columns when a member missed a class)
_BAGGING_ENTRIES = {"QBC_KL": "QueryByCommittee", "QBC_VE_bag": "QueryByCommittee", "BatchBALD": "BatchBALD", "GreedyBALD": "GreedyBALD"}
for _entry, _comp in _BAGGING_ENTRIES.items():
    def _bag(case, v, _entry=_entry):
        return getattr(getattr(case, "entry", None), "name", None) == _entry
    rule("C09", _comp, None, "ensemble = SklearnClassifier(BaggingClassifier): members trained on class indices")(_bag)


# ---- SingleAnnotatorWrapper around an inner strategy that is only defined on unlabelled candidates (C07, G22)
def _g22(case, v):
    return isinstance(case, dict) and case.get("arbitrary_index_ok") is False and case.get("some_candidate_labelled")


rule("C07", "SingleAnnotatorWrapper", None, "inner strategy needs unlabelled candidates and some candidate sample already carries a label")(_g22)


# ---- SingleAnnotatorWrapper offers candidate samples that have no available annotator to the wrapped strategy (C07, G24)
def _g24(case, v):
    return isinstance(case, dict) and case.get("candidate_without_annotator")


rule("C07", "SingleAnnotatorWrapper", "fewer-annotators-than-requested", "some candidate sample has no available annotator")(_g24)


# ---- SingleAnnotatorWrapper around a SubSamplingWrapper (C07, G48): the sub-sampling wrapper returns at most max_candidates
# samples (documented), the annotator wrapper assumes one utility row per requested sample
def _g48(case, v):
    return isinstance(case, dict) and case.get("inner_is_subsampling_wrapper")


rule("C07", "SingleAnnotatorWrapper", "exception:ValueError", "wrapped strategy is a SubSamplingWrapper (returns fewer samples than the annotator wrapper requests)")(_g48)


# kind-specific rule first: RULES is scanned in order
RULES.insert(0, RULES.pop(next(i for i, r in enumerate(RULES) if r[3] == "some candidate sample has no available annotator")))
