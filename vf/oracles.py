"""Input-agnostic oracles shared by several properties."""
import numpy as np


def is_missing(y, ml):
    """Own element-wise missing-label predicate (independent of skactiveml.utils)."""
    y = np.asarray(y)
    if ml is None:
        return np.array([v is None for v in y.ravel()], dtype=bool).reshape(y.shape)
    if isinstance(ml, (float, np.floating)) and ml != ml:      # NaN of any floating type
        if y.dtype.kind in "fc":
            return np.isnan(y)
        if y.dtype.kind in "iub":
            return np.zeros(y.shape, dtype=bool)
        return np.array([isinstance(v, float) and v != v for v in y.ravel()], dtype=bool).reshape(y.shape)
    if y.dtype.kind in "OUS":
        return np.array([(v == ml) is True for v in y.ravel()], dtype=bool).reshape(y.shape)
    return y == ml


def candidate_set(X, y, candidates, missing_label=np.nan):
    """(set of admissible result indices, number of utility columns), from the raw arguments."""
    if candidates is None:
        return set(np.flatnonzero(is_missing(y, missing_label)).tolist()), len(X)
    cand = np.asarray(candidates)
    if cand.ndim == 1:
        # index arrays follow the numpy convention: a negative index denotes the same sample as its non-negative counterpart
        return set(int(i) % len(X) for i in cand.tolist()), len(X)
    return set(range(len(cand))), len(cand)


def check_indices(idx, cset, bs, expected_k=None):
    """C01 oracle. Returns list of (kind, detail)."""
    probs = []
    k = min(bs, len(cset)) if expected_k is None else expected_k
    if not isinstance(idx, np.ndarray):
        probs.append(("not-ndarray", "type %s" % type(idx).__name__))
    a = np.asarray(idx)
    if a.ndim != 1:
        probs.append(("wrong-ndim", "shape %s" % (a.shape,)))
        a = a.ravel()
    if a.size and not np.issubdtype(a.dtype, np.integer):
        probs.append(("non-integer-dtype", str(a.dtype)))
        try:
            a = a.astype(int)
        except Exception:
            return probs
    elif a.size == 0 and not np.issubdtype(a.dtype, np.integer) and k > 0:
        probs.append(("non-integer-dtype", str(a.dtype)))
    if len(a) < k:
        probs.append(("too-few-indices", "len %d != %d" % (len(a), k)))
    elif len(a) > k:
        probs.append(("too-many-indices", "len %d != %d" % (len(a), k)))
    lst = a.tolist()
    if len(set(lst)) != len(lst):
        probs.append(("duplicate-index", "indices %s" % lst))
    bad = [i for i in lst if i not in cset]
    if bad:
        probs.append(("non-candidate-index", "indices %s not in candidate set %s" % (bad, sorted(cset)[:30])))
    return probs


def check_utilities(idx, U, cset, ncols, bs, selection="max", expected_k=None, nonselectable_ok=None):
    """C02 oracle. Returns list of (kind, detail)."""
    probs = []
    k = min(bs, len(cset)) if expected_k is None else expected_k
    if not isinstance(U, np.ndarray):
        probs.append(("utilities-not-ndarray", type(U).__name__))
    try:
        U = np.asarray(U, dtype=float)
    except Exception as e:
        return probs + [("utilities-not-numeric", repr(e)[:80])]
    a = np.asarray(idx).ravel()
    if U.shape != (k, ncols):
        probs.append(("utilities-wrong-shape", "shape %s != %s" % (U.shape, (k, ncols))))
        return probs
    try:
        a = a.astype(int)
    except Exception:
        return probs
    cmask = np.zeros(ncols, dtype=bool)
    cl = [c for c in cset if 0 <= c < ncols]
    cmask[cl] = True
    for i in range(min(k, len(a))):
        selectable = cmask.copy()
        prev = [j for j in a[:i].tolist() if 0 <= j < ncols]
        selectable[prev] = False
        nan = np.isnan(U[i])
        if (nan & selectable).any():
            j = int(np.flatnonzero(nan & selectable)[0])
            probs.append(("nan-at-selectable", "row %d col %d is NaN but selectable" % (i, j)))
        if (~nan & ~selectable).any():
            j = int(np.flatnonzero(~nan & ~selectable)[0])
            why = "earlier pick" if j in prev else "non-candidate"
            probs.append(("number-at-nonselectable", "row %d col %d (%s) = %r" % (i, j, why, U[i, j])))
        ai = int(a[i])
        if not (0 <= ai < ncols):
            continue
        if np.isnan(U[i, ai]):
            probs.append(("chosen-is-nan", "row %d chosen col %d is NaN" % (i, ai)))
            continue
        if selection == "max":
            m = np.nanmax(U[i]) if (~nan).any() else np.nan
            if not (U[i, ai] >= m):
                probs.append(("chosen-not-maximal", "row %d: U[chosen=%d]=%r < max %r" % (i, ai, U[i, ai], m)))
        else:
            if not (U[i, ai] > 0):
                probs.append(("chosen-zero-mass", "row %d: U[chosen=%d]=%r <= 0" % (i, ai, U[i, ai])))
    return probs
