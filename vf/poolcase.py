"""Builds one pool query case from a JSON descriptor and evaluates domain predicates."""
import numpy as np

from vf import gen
from vf.registry import POOL

CLASSES = [0, 1, 2]
CMODES = ["none", "idx", "idx_any", "feat"]


def cmodes_for(entry):
    out = ["none", "idx"]
    if entry.arbitrary_index_ok:
        out.append("idx_any")
    if entry.feat:
        out.append("feat")
    return out


def describe(entry_name, seed, data=None, labels=None, cmode=None, batch=None, n=None, extra=None):
    d = {"entry": entry_name, "seed": int(seed), "data": data, "labels": labels, "cmode": cmode,
         "batch": batch, "n": n}
    if extra:
        d.update(extra)
    return d


class PoolCase:
    pass


def build(desc):
    """Deterministically expands a descriptor. Missing choices are drawn from the case rng."""
    e = POOL[desc["entry"]]
    rng = gen.rng_for("poolcase", desc["entry"], desc["seed"], desc.get("data"), desc.get("labels"),
                      desc.get("cmode"), desc.get("batch"), desc.get("n"))
    c = PoolCase()
    c.entry = e
    c.desc = desc
    c.has_dups = False
    c.kind = e.kind if e.kind != "both" else ("clf" if rng.rand() < 0.7 else "reg")
    nmax = min(e.nmax, desc.get("nmax") or e.nmax)
    c.n = int(desc.get("n") or rng.randint(3, max(4, nmax + 1)))
    c.d = int(rng.randint(1, 4))
    c.data = desc.get("data") or gen.DATA_MODES[rng.randint(len(gen.DATA_MODES))]
    if c.data == "bow":
        c.d = gen.BOW_DIM
    c.labels = desc.get("labels") or gen.LABEL_REGIMES[rng.randint(len(gen.LABEL_REGIMES))]
    if c.labels == "full" and desc.get("cmode") not in ("feat", "idx_any"):
        c.labels = "lastone"
    c.X = gen.make_X(rng, c.n, c.d, c.data)
    if e.x_transform is not None:
        c.X = e.x_transform(c.X)
        c.d = c.X.shape[1]
    n_classes = 2 if e.binary else 3
    c.classes = CLASSES[:n_classes]
    c.y_true, c.lab = gen.make_labels(rng, c.n, c.labels, kind=c.kind, n_classes=n_classes)
    c.y = gen.nan_labels(c.y_true, c.lab)
    c.unl = np.flatnonzero(~c.lab)
    c.cmode = desc.get("cmode") or cmodes_for(e)[rng.randint(len(cmodes_for(e)))]
    if c.cmode == "none":
        c.candidates = None
        c.cset = set(c.unl.tolist())
        c.ncols = c.n
    elif c.cmode == "idx":
        k = int(rng.randint(1, len(c.unl) + 1))
        c.candidates = rng.choice(c.unl, size=k, replace=False)
        if rng.rand() < 0.3:
            c.candidates = np.sort(c.candidates)
        c.has_dups = False
        if desc.get("allow_dup_candidates") and k >= 1 and rng.rand() < 0.2:
            # repeated entries in the index array: the library may reject them (ValueError) - if it accepts them the
            # result must still be a set of distinct candidates
            c.candidates = np.concatenate([c.candidates, c.candidates[rng.randint(k, size=int(rng.randint(1, 3)))]])
            c.has_dups = True
        c.cset = set(c.candidates.tolist())
        if desc.get("allow_negative_candidates") and rng.rand() < 0.15:
            # numpy-style negative indices for some entries (the same samples, written from the end)
            neg = rng.rand(len(c.candidates)) < 0.5
            c.candidates = np.where(neg, c.candidates - c.n, c.candidates)
            c.has_negative = True
        c.ncols = c.n
    elif c.cmode == "idx_any":
        k = int(rng.randint(1, c.n + 1))
        c.candidates = rng.choice(c.n, size=k, replace=False)
        c.cset = set(c.candidates.tolist())
        c.ncols = c.n
    elif c.cmode == "feat":
        k = int(rng.randint(1, 7))
        how = rng.randint(3)
        if how == 0:
            c.candidates = gen.make_X(rng, k, c.d, c.data)
        elif how == 1:
            c.candidates = c.X[rng.randint(c.n, size=k)].copy()
        else:
            base = gen.make_X(rng, max(1, k // 2), c.d, c.data)
            c.candidates = base[rng.randint(len(base), size=k)].copy()
        c.cset = set(range(k))
        c.ncols = k
    else:
        raise ValueError(c.cmode)
    c.batch = desc.get("batch") or gen.BATCH_REGIMES[rng.randint(len(gen.BATCH_REGIMES))]
    c.bs = gen.batch_size_for(rng, c.batch, len(c.cset))
    if e.bs1_only:
        c.bs = 1
    c.k = min(c.bs, len(c.cset))
    c.n_labeled = int(c.lab.sum())
    c.n_classes_obs = len(set(c.y_true[c.lab].tolist())) if c.kind != "reg" else None
    c.strategy_seed = int(rng.randint(0, 2**31 - 1))
    if rng.rand() < 0.08:
        c.strategy_seed = 0           # 0 is a seed like any other (`random_state or default` treats it as None)
    c.ctx = {"classes": c.classes, "ml": np.nan, "kind": c.kind}
    return c


def domain(c):
    """None if the case is inside the documented domain of the strategy, else the reason."""
    e = c.entry
    name = e.name
    if e.kind in ("clf",) and c.kind != "clf":
        return "classification strategy"
    if e.kind == "reg" and c.kind != "reg":
        return "regression strategy"
    if e.domain is not None:
        r = e.domain(c)
        if r:
            return r
    return None


_FIT_FLAG = {"clf": "fit_clf", "reg": "fit_reg", "ensemble": "fit_ensemble"}
_QP = {}


def query_params(e):
    import inspect
    if e.name not in _QP:
        try:
            _QP[e.name] = set(inspect.signature(e.cls.query).parameters)
        except Exception:
            _QP[e.name] = set()
    return _QP[e.name]


def call_kwargs(c, return_utilities=True, variant=0):
    """variant 0: default call; 1: model passed pre-fitted with fit_*=False; 2: sample_weight given;
    3: pre-fitted + utility_weight (where the strategy has these parameters); 4: X, y, candidates as nested lists; 5: Fortran order / int32 indices; 6: float32 features; 7: heavy sample weights."""
    e = c.entry
    kw = dict(e.kwargs(c.ctx))
    qp = query_params(e)
    rng = np.random.RandomState(c.strategy_seed % (2**31 - 1))
    flag = _FIT_FLAG.get(e.model_arg)
    # expected-error-reduction strategies can only continue from a pre-fitted classifier through partial_fit
    # (NotFittedError otherwise, by design): they always get fit_clf=True
    eer = "ignore_partial_fit" in qp
    if variant in (1, 3) and flag in qp and e.model_arg in kw and c.n_labeled >= 1 and not eer:
        m = kw[e.model_arg]
        try:
            for x in (m if isinstance(m, list) else [m]):
                x.fit(c.X, c.y)
            kw[flag] = False
        except Exception:
            kw = dict(e.kwargs(c.ctx))
    # sample weights refer to the rows of X: strategies that retrain with a candidate (EMOC, EMVR, KLDM ...) reject them
    # for feature-row candidates, which have no weight
    if variant == 2 and "sample_weight" in qp and c.cmode != "feat":
        kw["sample_weight"] = np.round(rng.rand(c.n) + 0.2, 2)
    # (not for precompute=True of EpistemicUncertaintySampling: its interpolation grid has max(frequency)^2 cells, each
    # filled by two numerical optimisations - minutes of run time by design, nothing to decide)
    if variant == 7 and "sample_weight" in qp and c.cmode != "feat" and e.name != "EpistemicUS_pre":
        # heavy weights (as many identical observations): kernel frequency estimates in the hundreds and thousands
        kw["sample_weight"] = np.round(rng.rand(c.n) * 400 + 100)
    if variant == 3 and "utility_weight" in qp and c.cmode != "feat":
        kw["utility_weight"] = np.round(rng.rand(c.n) + 0.5, 2)
    kw.update(X=c.X.copy(), y=c.y.copy(),
              candidates=None if c.candidates is None else c.candidates.copy(),
              batch_size=c.bs, return_utilities=return_utilities)
    if variant == 5:
        # memory layout / index dtype a caller may well have: Fortran-ordered X, int32 (or strided) index candidates
        kw["X"] = np.asfortranarray(kw["X"])
        if kw["candidates"] is not None and kw["candidates"].ndim == 1:
            kw["candidates"] = kw["candidates"].astype(np.int32)
        elif kw["candidates"] is not None:
            kw["candidates"] = np.asfortranarray(kw["candidates"])
    if variant == 6 and getattr(e.domain, "__name__", "") != "_nb_domain":
        # (scikit-learn's GaussianNB loses its variance smoothing in single precision when a class has zero variance and
        # returns rows like [1, 1]: the third-party failure of DESIGN 5.8, so NB entries keep double precision)
        # single-precision features (the selection may differ from float64, validity may not)
        kw["X"] = kw["X"].astype(np.float32)
        if kw["candidates"] is not None and kw["candidates"].ndim == 2:
            kw["candidates"] = kw["candidates"].astype(np.float32)
    if variant == 4:
        # array-like means array-like: nested Python lists for X, y and the candidates
        kw["X"], kw["y"] = kw["X"].tolist(), kw["y"].tolist()
        if kw["candidates"] is not None:
            kw["candidates"] = kw["candidates"].tolist()
        if "sample_weight" in qp and c.cmode != "feat" and "sample_weight" not in kw and c.strategy_seed % 2:
            kw["sample_weight"] = np.round(rng.rand(c.n) + 0.2, 2).tolist()      # ... and for the weights
    return kw


def cell_summary(c):
    return {"entry": c.entry.name, "n": c.n, "d": c.d, "data": c.data, "labels": c.labels,
            "cmode": c.cmode, "batch": c.batch, "bs": c.bs, "n_cand": len(c.cset),
            "n_labeled": c.n_labeled, "kind": c.kind}


def build_in_domain(desc, accept=None, tries=8):
    """Builds the case of `desc`; if it falls outside the documented domain (or `accept` rejects it) the case seed is
    re-derived deterministically (seed, attempt) up to `tries` times, so that a required grid cell is not left empty by
    an unlucky draw.  Returns (case, reason): reason is None if an in-domain case was found."""
    why = None
    for attempt in range(tries):
        d = desc if attempt == 0 else dict(desc, seed=int(desc["seed"]) * 31 + attempt)
        c = build(d)
        why = domain(c)
        if why is None and accept is not None:
            why = accept(c)
        if why is None:
            return c, None
    return c, why
