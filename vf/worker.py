"""Shard worker: python -m vf.worker <PROP> <cases.json> <out.jsonl> <tier>

Executes the cases of one shard in order.  A 'start' event is written before a case
and a 'result' event after it, so the runner can tell which case was in progress
if the process dies.  Harness errors are reported as *inconclusive*, never as held.
"""
import json
import os
import signal
import sys
import time
import traceback
import warnings


class CaseTimeout(BaseException):
    pass


def _alarm(signum, frame):
    raise CaseTimeout()


def main():
    prop, cases_file, out_file, tier = sys.argv[1:5]
    warnings.simplefilter("ignore")
    os.environ["VERIF_TIER"] = tier
    from vf import core
    mod = core.load_prop(prop)
    from vf.monitors import steps
    if getattr(mod, "USE_STEP_BUDGET", True):
        steps.install()
    with open(cases_file) as f:
        cases = json.load(f)
    case_limit = getattr(mod, "CASE_TIMEOUT", {"quick": 300, "thorough": 900})[tier]
    signal.signal(signal.SIGALRM, _alarm)
    out = open(out_file, "a", buffering=1)
    for case in cases:
        out.write(json.dumps({"event": "start", "id": case["id"]}) + "\n")
        t0 = time.time()
        try:
            signal.alarm(case_limit)
            try:
                res = mod.run_case(case)
            finally:
                signal.alarm(0)
        except CaseTimeout:
            res = {"status": "inconclusive", "reason": "per-case wall-clock watchdog (%ds)" % case_limit}
        except steps.StepBudgetExceeded as e:
            # a budget overrun that escaped the property's own handling
            res = {"status": "inconclusive", "reason": "unhandled step budget overrun at %s" % e}
        except BaseException as e:  # harness bug -> inconclusive, with traceback
            if isinstance(e, KeyboardInterrupt):
                raise
            res = {"status": "inconclusive",
                   "reason": "harness error %r: %s" % (e, traceback.format_exc()[-1500:])}
        res.setdefault("status", "ok")
        res["event"] = "result"
        res["id"] = case["id"]
        res["t"] = round(time.time() - t0, 3)
        res.setdefault("maxima", {})["step_budget_max_seen"] = steps.state["max"]
        out.write(json.dumps(res, default=_default) + "\n")
    out.close()


def _default(o):
    import numpy as np
    if isinstance(o, np.ndarray):
        return o.tolist()
    if isinstance(o, (np.integer,)):
        return int(o)
    if isinstance(o, (np.floating,)):
        return float(o)
    if isinstance(o, (np.bool_,)):
        return bool(o)
    return repr(o)


if __name__ == "__main__":
    main()
