"""Seeded generators. Everything is derived from small JSON descriptors so that a case
can be regenerated exactly from its replay file."""
import numpy as np

from vf.core import stable_hash

DATA_MODES = ["normal", "dups", "const", "grid", "far", "scaled", "bow"]
BOW_DIM = 48       # "bow": duplicated binary bag-of-words rows in 48 dimensions (the caller sets d = BOW_DIM)


def rng_for(*parts):
    return np.random.RandomState(stable_hash(*parts) % (2**31 - 1))


def make_X(rng, n, d, mode):
    if mode == "normal":
        X = rng.randn(n, d)
    elif mode == "dups":
        base = rng.randn(max(2, n // 3), d)
        X = base[rng.randint(len(base), size=n)]
    elif mode == "const":
        X = np.ones((n, d))
        X[:, 0] = rng.randint(0, 2, size=n)
    elif mode == "grid":
        X = rng.randint(0, 3, size=(n, d)).astype(float)
    elif mode == "far":
        X = rng.randn(n, d)
        X[rng.rand(n) < 0.5] += 50.0
    elif mode == "bow":
        # (two non-dyadic levels: norms and dot products of the rows are not exactly representable, so a distance computed
        # as |x|^2 + |y|^2 - 2xy between identical rows is rounding noise instead of an exact 0)
        base = (rng.rand(max(2, n // 4), d) < 0.5).astype(float) * 7.3 + 0.1
        X = base[rng.randint(len(base), size=n)]
    elif mode == "scaled":
        X = rng.randn(n, d) * (10.0 ** rng.randint(-3, 4, size=d))
    else:
        raise ValueError(mode)
    return np.ascontiguousarray(X, dtype=float)


LABEL_REGIMES = ["cold", "one", "oneclass", "unobserved", "half", "lastone", "random"]


def make_labels(rng, n, regime, kind="clf", n_classes=3):
    """Returns (y_true, labelled_mask).  y_true are class ids 0..K-1 (float) or targets."""
    if kind == "reg":
        y_true = np.round(rng.randn(n), 2)
        if rng.rand() < 0.3:
            y_true = np.round(y_true)  # ties among targets
    else:
        y_true = rng.randint(0, n_classes, size=n).astype(float)
    lab = np.zeros(n, dtype=bool)
    if regime == "cold":
        pass
    elif regime == "one":
        lab[rng.randint(n)] = True
    elif regime == "oneclass":
        if kind != "reg":
            c = y_true[rng.randint(n)]
            idx = np.flatnonzero(y_true == c)
        else:
            idx = np.arange(n)
        k = min(len(idx), max(1, n // 3))
        lab[rng.choice(idx, size=k, replace=False)] = True
    elif regime == "unobserved":
        if kind != "reg":
            idx = np.flatnonzero(y_true != n_classes - 1)
        else:
            idx = np.arange(n)
        if len(idx):
            k = min(len(idx), max(2, n // 2))
            lab[rng.choice(idx, size=k, replace=False)] = True
    elif regime == "half":
        lab[rng.choice(n, size=n // 2, replace=False)] = True
    elif regime == "lastone":
        lab[:] = True
        lab[rng.randint(n)] = False
    elif regime == "random":
        lab[rng.rand(n) < rng.rand()] = True
    elif regime == "full":      # every sample labelled: legal when the candidates are feature rows or arbitrary indices
        lab[:] = True
        return y_true, lab
    if lab.all():
        lab[rng.randint(n)] = False
    return y_true, lab


def nan_labels(y_true, lab):
    y = np.full(len(y_true), np.nan)
    y[lab] = y_true[lab]
    return y


BATCH_REGIMES = ["1", "2-3", "exact", "over"]


def batch_size_for(rng, regime, n_cand):
    if regime == "1":
        return 1
    if regime == "2-3":
        return int(rng.randint(2, 4))
    if regime == "exact":
        return int(max(1, n_cand))
    return int(n_cand + 2)
