"""Generators for multi-annotator cases (C05, C06, C07, C20)."""
import numpy as np

from skactiveml.classifier import ParzenWindowClassifier
from skactiveml.classifier.multiannotator import AnnotatorEnsembleClassifier, AnnotatorLogisticRegression
from skactiveml.pool.multiannotator import IntervalEstimationThreshold


def make_label_matrix(rng, y_true, lab, n_annot, classes, p_missing=None, noise=0.2):
    """(n, n_annot) label matrix with NaN for missing; rows of unlabelled samples are all missing,
    labelled samples have an arbitrary non-empty subset of annotators."""
    n = len(y_true)
    Y = np.full((n, n_annot), np.nan)
    p = rng.rand() if p_missing is None else p_missing
    for i in np.flatnonzero(lab):
        who = rng.rand(n_annot) >= p
        if not who.any():
            who[rng.randint(n_annot)] = True
        for a in np.flatnonzero(who):
            Y[i, a] = y_true[i] if rng.rand() >= noise else classes[rng.randint(len(classes))]
    return Y


def make_arbitrary_matrix(rng, y_true, n_annot, classes, regime):
    """Label matrices with arbitrary missing patterns (rows with none / some / all labels)."""
    n = len(y_true)
    Y = np.full((n, n_annot), np.nan)
    if regime == "cold":
        return Y
    p = {"sparse": 0.8, "half": 0.5, "dense": 0.15, "rows": 0.5}[regime]
    M = rng.rand(n, n_annot) >= p
    if regime == "rows":
        full = rng.rand(n) < 0.3
        empty = (rng.rand(n) < 0.3) & ~full
        M[full] = True
        M[empty] = False
    if M.all():
        M[rng.randint(n), rng.randint(n_annot)] = False
    for i, a in zip(*np.nonzero(M)):
        Y[i, a] = y_true[i] if rng.rand() > 0.2 else classes[rng.randint(len(classes))]
    return Y


def build_iet_call(desc, rng):
    from vf import gen
    n = int(rng.randint(4, (desc.get("nmax") or 12) + 1))
    d = int(rng.randint(1, 3))
    data = gen.DATA_MODES[rng.randint(len(gen.DATA_MODES))]
    X = gen.make_X(rng, n, d, data)
    classes = [0, 1, 2]
    y_true = rng.randint(0, 3, size=n).astype(float)
    n_annot = int(rng.randint(2, 5))
    lab = rng.rand(n) < 0.5
    if lab.all():
        lab[0] = False
    # IET is documented for fully available annotators: labelled rows are fully labelled
    Y = np.full((n, n_annot), np.nan)
    for i in np.flatnonzero(lab):
        for a in range(n_annot):
            Y[i, a] = y_true[i] if rng.rand() > 0.25 else classes[rng.randint(3)]
    seed = int(rng.randint(0, 2**31 - 1))
    bs = int(rng.randint(1, 5))

    def model():
        if desc["seed"] % 2:
            m = AnnotatorLogisticRegression(classes=classes, random_state=0, max_iter=20)
        else:
            m = AnnotatorEnsembleClassifier(
                estimators=[("pwc%d" % a, ParzenWindowClassifier(classes=classes, random_state=0))
                            for a in range(n_annot)], voting="soft", classes=classes, random_state=0)
        if desc.get("prefit"):
            m.fit(X, Y)
        return m

    def mk_kw(m):
        kw = dict(X=X.copy(), y=Y.copy(), clf=m, batch_size=bs, return_utilities=True)
        if desc.get("prefit"):
            kw["fit_clf"] = False
        return kw

    return {"make": lambda: IntervalEstimationThreshold(random_state=seed), "kw": mk_kw(model()),
            "fresh_kw": lambda: mk_kw(model()), "label": "%s|n%d|a%d" % (data, n, n_annot),
            "comp": "IntervalEstimationThreshold", "fit_mode": "prefit" if desc.get("prefit") else "fit",
            "lazy": True}
