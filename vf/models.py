"""Factories of all classifiers / regressors of the package for C11, C12, C13, C15, C06, C09."""
import numpy as np
from sklearn.ensemble import RandomForestClassifier
from sklearn.gaussian_process import GaussianProcessRegressor
from sklearn.linear_model import (ARDRegression, BayesianRidge, LinearRegression, LogisticRegression,
                                  SGDClassifier)
from sklearn.mixture import BayesianGaussianMixture, GaussianMixture
from sklearn.naive_bayes import GaussianNB
from sklearn.neighbors import KNeighborsClassifier
from sklearn.svm import SVR
from sklearn.tree import DecisionTreeClassifier, DecisionTreeRegressor

from skactiveml.classifier import (MixtureModelClassifier, ParzenWindowClassifier, SklearnClassifier,
                                   SlidingWindowClassifier)
from skactiveml.classifier.multiannotator import AnnotatorEnsembleClassifier, AnnotatorLogisticRegression
from skactiveml.regressor import (NadarayaWatsonRegressor, NICKernelRegressor, SklearnNormalRegressor,
                                  SklearnRegressor)

# name -> (factory(classes, ml, cost_matrix, seed, **kw), multi_annotator?, estimates probabilities itself?)
CLASSIFIERS = {}


def _c(name, multi=False, own_proba=True):
    def deco(fn):
        CLASSIFIERS[name] = (fn, multi, own_proba)
        return fn
    return deco


@_c("pwc")
def pwc(classes, ml, cm, seed, **kw):
    return ParzenWindowClassifier(classes=classes, missing_label=ml, cost_matrix=cm, random_state=seed, **kw)


@_c("pwc_knn")
def pwc_knn(classes, ml, cm, seed, **kw):
    return ParzenWindowClassifier(n_neighbors=3, metric_dict={"gamma": 0.5}, classes=classes, missing_label=ml,
                                  cost_matrix=cm, random_state=seed, **kw)


@_c("pwc_prior")
def pwc_prior(classes, ml, cm, seed, **kw):
    return ParzenWindowClassifier(class_prior=0.5, metric="laplacian", classes=classes, missing_label=ml,
                                  cost_matrix=cm, random_state=seed, **kw)


@_c("mixture")
def mixture(classes, ml, cm, seed, **kw):
    mm = BayesianGaussianMixture(n_components=2, reg_covar=1e-2, random_state=0)
    return MixtureModelClassifier(mixture_model=mm, classes=classes, missing_label=ml, cost_matrix=cm,
                                  random_state=seed, **kw)


@_c("mixture_default")
def mixture_default(classes, ml, cm, seed, **kw):
    # default mixture model: created inside fit and seeded from the classifier's own random_state_
    return MixtureModelClassifier(classes=classes, missing_label=ml, cost_matrix=cm, random_state=seed, **kw)


@_c("mixture_sim")
def mixture_sim(classes, ml, cm, seed, **kw):
    mm = GaussianMixture(n_components=2, reg_covar=1e-2, random_state=0)
    return MixtureModelClassifier(mixture_model=mm, weight_mode="similarities", classes=classes, missing_label=ml,
                                  cost_matrix=cm, random_state=seed, **kw)


def _sk(est):
    def f(classes, ml, cm, seed, **kw):
        return SklearnClassifier(est(), classes=classes, missing_label=ml, cost_matrix=cm, random_state=seed, **kw)
    return f


CLASSIFIERS["sk_nb"] = (_sk(lambda: GaussianNB(var_smoothing=1e-3)), False, True)
# default smoothing: zero variance (one labelled sample, coinciding labelled rows) makes GaussianNB return NaN probabilities
CLASSIFIERS["sk_nb_default"] = (_sk(lambda: GaussianNB()), False, True)
CLASSIFIERS["sk_lr"] = (_sk(lambda: LogisticRegression(max_iter=200)), False, True)
CLASSIFIERS["sk_tree"] = (_sk(lambda: DecisionTreeClassifier(random_state=0)), False, True)
CLASSIFIERS["sk_knn"] = (_sk(lambda: KNeighborsClassifier(n_neighbors=1)), False, True)
CLASSIFIERS["sk_rf"] = (_sk(lambda: RandomForestClassifier(n_estimators=4, random_state=0)), False, True)
CLASSIFIERS["sk_sgd"] = (_sk(lambda: SGDClassifier(loss="log_loss", random_state=0, max_iter=50, tol=None)), False, True)


CLASSIFIERS["sk_sgd_warm"] = (_sk(lambda: SGDClassifier(loss="log_loss", warm_start=True, random_state=0, max_iter=30, tol=None)), False, True)
CLASSIFIERS["sk_rf_warm"] = (_sk(lambda: RandomForestClassifier(n_estimators=3, warm_start=True, random_state=0)), False, True)


@_c("mixture_sim_cov")
def mixture_sim_cov(classes, ml, cm, seed, **kw):
    # similarity mode with the other covariance parametrisations of the Gaussian mixture
    ct = ["diag", "tied", "spherical"][seed % 3]
    mm = GaussianMixture(n_components=2, covariance_type=ct, reg_covar=1e-2, random_state=0)
    return MixtureModelClassifier(mixture_model=mm, weight_mode="similarities", classes=classes, missing_label=ml,
                                  cost_matrix=cm, random_state=seed, **kw)


@_c("sliding")
def sliding(classes, ml, cm, seed, **kw):
    inner = SklearnClassifier(GaussianNB(var_smoothing=1e-3), classes=classes, missing_label=ml, random_state=0)
    return SlidingWindowClassifier(inner, classes=classes, missing_label=ml, cost_matrix=cm,
                                   window_size=kw.pop("window_size", 6), only_labeled=kw.pop("only_labeled", False),
                                   random_state=seed, **kw)


@_c("sliding_pwc")
def sliding_pwc(classes, ml, cm, seed, **kw):
    # soft probabilities (wide kernel) and the cost matrix / classes given to the WRAPPER only
    inner = ParzenWindowClassifier(metric_dict={"gamma": 0.05}, missing_label=ml, random_state=0)
    return SlidingWindowClassifier(inner, classes=classes, missing_label=ml, cost_matrix=cm,
                                   window_size=kw.pop("window_size", 8), random_state=seed, **kw)


@_c("sliding_pwc_cls")
def sliding_pwc_cls(classes, ml, cm, seed, **kw):
    # the wrapped classifier declares the classes as well, the cost matrix and the random state are given to the wrapper only
    inner = ParzenWindowClassifier(metric_dict={"gamma": 0.05}, classes=classes, missing_label=ml)
    return SlidingWindowClassifier(inner, classes=classes, missing_label=ml, cost_matrix=cm,
                                   window_size=kw.pop("window_size", 8), random_state=seed, **kw)


@_c("ens_soft", multi=True)
def ens_soft(classes, ml, cm, seed, n_annot=3, **kw):
    return AnnotatorEnsembleClassifier(
        estimators=[("e%d" % a, ParzenWindowClassifier(missing_label=ml, random_state=0)) for a in range(n_annot)],
        voting="soft", classes=classes, missing_label=ml, cost_matrix=cm, random_state=seed)


@_c("ens_hard", multi=True, own_proba=False)
def ens_hard(classes, ml, cm, seed, n_annot=3, **kw):
    return AnnotatorEnsembleClassifier(
        estimators=[("e%d" % a, ParzenWindowClassifier(missing_label=ml, random_state=0)) for a in range(n_annot)],
        voting="hard", classes=classes, missing_label=ml, cost_matrix=cm, random_state=seed)


@_c("annot_lr", multi=True)
def annot_lr(classes, ml, cm, seed, n_annot=3, **kw):
    # both documented solvers (the seed decides; SLSQP passes NaN parameters through to the probabilities)
    kw.setdefault("solver", "SLSQP" if seed % 2 else "Newton-CG")
    return AnnotatorLogisticRegression(classes=classes, missing_label=ml, cost_matrix=cm, random_state=seed,
                                       max_iter=30, **kw)


REGRESSORS = {
    "nic": lambda ml=np.nan, seed=0, **kw: NICKernelRegressor(missing_label=ml, random_state=seed, **kw),
    "nw": lambda ml=np.nan, seed=0, **kw: NadarayaWatsonRegressor(missing_label=ml, random_state=seed, **kw),
    "sk_lin": lambda ml=np.nan, seed=0, **kw: SklearnRegressor(LinearRegression(), missing_label=ml, random_state=seed),
    "sk_tree": lambda ml=np.nan, seed=0, **kw: SklearnRegressor(DecisionTreeRegressor(random_state=0), missing_label=ml, random_state=seed),
    "sk_svr": lambda ml=np.nan, seed=0, **kw: SklearnRegressor(SVR(), missing_label=ml, random_state=seed),
    "skn_gp": lambda ml=np.nan, seed=0, **kw: SklearnNormalRegressor(GaussianProcessRegressor(random_state=0), missing_label=ml, random_state=seed),
    "skn_br": lambda ml=np.nan, seed=0, **kw: SklearnNormalRegressor(BayesianRidge(), missing_label=ml, random_state=seed),
    "skn_ard": lambda ml=np.nan, seed=0, **kw: SklearnNormalRegressor(ARDRegression(), missing_label=ml, random_state=seed),
}
PROBABILISTIC_REGRESSORS = ["nic", "nw", "skn_gp", "skn_br", "skn_ard"]
