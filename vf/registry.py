"""Registry of everything exported by the package, with factories, default call
arguments, capability flags and documented domain predicates.

A *completeness monitor* (`missing_from_registry`) compares the registry with the
package `__all__` lists at run time: an exported strategy that is not registered makes
the cross-product checks INCONCLUSIVE, so new strategies cannot silently escape.
"""
import inspect

import numpy as np
from sklearn.ensemble import BaggingClassifier, RandomForestClassifier
from sklearn.gaussian_process import GaussianProcessRegressor
from sklearn.linear_model import BayesianRidge, LogisticRegression
from sklearn.mixture import BayesianGaussianMixture
from sklearn.naive_bayes import GaussianNB
from sklearn.tree import DecisionTreeClassifier, DecisionTreeRegressor

import skactiveml.pool as P
import skactiveml.pool.multiannotator as PM
import skactiveml.stream as S
import skactiveml.stream.budgetmanager as B
from skactiveml.classifier import (MixtureModelClassifier, ParzenWindowClassifier,
                                   SklearnClassifier)
from skactiveml.regressor import (NICKernelRegressor, SklearnNormalRegressor,
                                  SklearnRegressor)

NAN = np.nan


# --------------------------------------------------------------------------- models
def clf_pwc(classes, ml=NAN, **kw):
    return ParzenWindowClassifier(classes=classes, missing_label=ml, random_state=0, **kw)


def clf_nb(classes, ml=NAN):
    return SklearnClassifier(GaussianNB(), classes=classes, missing_label=ml, random_state=0)


def clf_lr(classes, ml=NAN):
    return SklearnClassifier(LogisticRegression(max_iter=200), classes=classes, missing_label=ml,
                             random_state=0)


def clf_tree(classes, ml=NAN):
    return SklearnClassifier(DecisionTreeClassifier(random_state=0), classes=classes,
                             missing_label=ml, random_state=0)


def clf_rf(classes, ml=NAN):
    return SklearnClassifier(RandomForestClassifier(n_estimators=4, random_state=0), classes=classes,
                             missing_label=ml, random_state=0)


def clf_bag(classes, ml=NAN):
    return SklearnClassifier(
        BaggingClassifier(DecisionTreeClassifier(random_state=0), n_estimators=3, random_state=0),
        classes=classes, missing_label=ml, random_state=0)


def clf_mix(classes, ml=NAN):
    mm = BayesianGaussianMixture(n_components=2, reg_covar=1e-2, random_state=0)
    return MixtureModelClassifier(mixture_model=mm, classes=classes, missing_label=ml, random_state=0)


def ens_list(classes, ml=NAN):
    return [ParzenWindowClassifier(classes=classes, missing_label=ml, metric_dict={"gamma": g},
                                   random_state=0) for g in (0.1, 1.0, 5.0)]


def reg_nic(ml=NAN):
    return NICKernelRegressor(missing_label=ml, random_state=0)


def reg_tree(ml=NAN):
    return SklearnRegressor(DecisionTreeRegressor(min_samples_leaf=2, random_state=0), missing_label=ml,
                            random_state=0)


def reg_gp(ml=NAN):
    return SklearnNormalRegressor(GaussianProcessRegressor(random_state=0), missing_label=ml,
                                  random_state=0)


def reg_br(ml=NAN):
    return SklearnNormalRegressor(BayesianRidge(), missing_label=ml, random_state=0)


CLF_MODELS = {"pwc": clf_pwc, "nb": clf_nb, "lr": clf_lr, "tree": clf_tree, "rf": clf_rf, "mix": clf_mix}
REG_MODELS = {"nic": reg_nic, "tree": reg_tree, "gp": reg_gp, "br": reg_br}


# --------------------------------------------------------------------------- pool strategies
class Entry:
    def __init__(self, name, cls, make, kwargs, kind="clf", feat=True, arbitrary_index_ok=False,
                 selection="max", nmax=40, independent=False, perm=False, domain=None, slow=1,
                 model_arg=None, lazy=False, binary=False, needs_classes=False, enc=True,
                 state_between_cycles=False):
        self.name, self.cls, self.make, self.kwargs = name, cls, make, kwargs
        self.kind, self.feat, self.arbitrary_index_ok = kind, feat, arbitrary_index_ok
        self.selection, self.nmax = selection, nmax
        self.independent, self.perm = independent, perm
        self.domain = domain
        self.slow = slow
        self.model_arg = model_arg
        self.lazy = lazy
        self.binary = binary
        self.needs_classes = needs_classes
        self.enc = enc
        self.is_wrapper = False
        self.x_transform = None
        self.no_cold = False
        self.bs1_only = False
        self.loop = True


POOL = {}


def add(name, cls, make, kwargs=lambda c: {}, **kw):
    POOL[name] = Entry(name, cls, make, kwargs, **kw)


def _ctx_clf(c, which="pwc"):
    return CLF_MODELS[which](c["classes"], c.get("ml", NAN))


def _nb_domain(case):
    """scikit-learn's GaussianNB returns rows like [1, 1] when all training rows coincide (its
    variance smoothing is relative to the largest feature variance, which is then 0): third-party
    numerical failure, kept out of the workload (DESIGN 5.8)."""
    if case.n_labeled >= 1 and float(np.var(case.X[case.lab], axis=0).max()) < 1e-9:
        return "GaussianNB degenerate: all labelled rows identical"
    return None


add("RandomSampling", P.RandomSampling, lambda s, ml=NAN: P.RandomSampling(missing_label=ml, random_state=s),
    kind="both", arbitrary_index_ok=True, selection="sampling", independent=True, perm=False)
for _m in ["least_confident", "margin_sampling", "entropy"]:
    add("US_" + _m, P.UncertaintySampling,
        lambda s, ml=NAN, m=_m: P.UncertaintySampling(method=m, missing_label=ml, random_state=s),
        lambda c: dict(clf=_ctx_clf(c)), arbitrary_index_ok=True, independent=True, perm=True,
        model_arg="clf")
add("US_eap", P.UncertaintySampling,
    lambda s, ml=NAN: P.UncertaintySampling(method="expected_average_precision", missing_label=ml, random_state=s),
    # expected average precision ranks all candidates jointly: not a sample-wise scorer (no restriction claim)
    lambda c: dict(clf=_ctx_clf(c)), arbitrary_index_ok=True, independent=False, perm=True, model_arg="clf",
    nmax=20)
add("US_nb", P.UncertaintySampling,
    lambda s, ml=NAN: P.UncertaintySampling(method="entropy", missing_label=ml, random_state=s),
    lambda c: dict(clf=_ctx_clf(c, "nb")), arbitrary_index_ok=True, independent=True, perm=True,
    model_arg="clf", domain=_nb_domain)
add("US_cost", P.UncertaintySampling,
    lambda s, ml=NAN: P.UncertaintySampling(method="least_confident", missing_label=ml, random_state=s,
                                            cost_matrix=1 - np.eye(3) + np.array([[0, 1, 0], [0, 0, 0], [2, 0, 0]])),
    lambda c: dict(clf=_ctx_clf(c)), arbitrary_index_ok=True, independent=True, perm=True, model_arg="clf")
add("ProbabilisticAL", P.ProbabilisticAL, lambda s, ml=NAN: P.ProbabilisticAL(missing_label=ml, random_state=s),
    lambda c: dict(clf=_ctx_clf(c)), arbitrary_index_ok=True, independent=True, perm=True, model_arg="clf")
add("ProbabilisticAL_rbf", P.ProbabilisticAL,
    lambda s, ml=NAN: P.ProbabilisticAL(metric="rbf", missing_label=ml, random_state=s),
    lambda c: dict(clf=_ctx_clf(c, "nb")), arbitrary_index_ok=True, independent=True, perm=True,
    model_arg="clf", lazy=True, domain=_nb_domain)
add("ProbabilisticAL_rbf_dict", P.ProbabilisticAL,
    lambda s, ml=NAN: P.ProbabilisticAL(metric="rbf", metric_dict={"gamma": "mean"}, missing_label=ml, random_state=s),
    lambda c: dict(clf=_ctx_clf(c, "nb")), arbitrary_index_ok=True, independent=True, perm=True,
    model_arg="clf", lazy=True, domain=_nb_domain)
add("ProbabilisticAL_rbf_emptydict", P.ProbabilisticAL,
    lambda s, ml=NAN: P.ProbabilisticAL(metric="rbf", metric_dict={}, missing_label=ml, random_state=s),
    lambda c: dict(clf=_ctx_clf(c, "nb")), arbitrary_index_ok=True, independent=True, perm=True,
    model_arg="clf", lazy=True, domain=_nb_domain)
add("QBC_KL", P.QueryByCommittee, lambda s, ml=NAN: P.QueryByCommittee(missing_label=ml, random_state=s),
    lambda c: dict(ensemble=clf_bag(c["classes"], c.get("ml", NAN))), arbitrary_index_ok=True,
    model_arg="ensemble")
add("QBC_VE_bag", P.QueryByCommittee, lambda s, ml=NAN: P.QueryByCommittee(method="vote_entropy", missing_label=ml, random_state=s),
    lambda c: dict(ensemble=clf_bag(c["classes"], c.get("ml", NAN))), arbitrary_index_ok=True, model_arg="ensemble")
for _m, _n in [("KL_divergence", "KL"), ("vote_entropy", "VE"), ("variation_ratios", "VR")]:
    # the vote-based methods count the members' hard predictions, whose ties are broken at random: another candidate set or
    # row order changes the random stream, so restriction / permutation are only claimed for the probability-based method
    add("QBC_%s_list" % _n, P.QueryByCommittee,
        lambda s, ml=NAN, m=_m: P.QueryByCommittee(method=m, missing_label=ml, random_state=s),
        lambda c: dict(ensemble=ens_list(c["classes"], c.get("ml", NAN))), arbitrary_index_ok=True,
        independent=(_n == "KL"), perm=(_n == "KL"), model_arg="ensemble")
add("BatchBALD", P.BatchBALD, lambda s, ml=NAN: P.BatchBALD(missing_label=ml, random_state=s),
    lambda c: dict(ensemble=clf_bag(c["classes"], c.get("ml", NAN))), arbitrary_index_ok=True,
    model_arg="ensemble", nmax=25)
add("BatchBALD_list", P.BatchBALD, lambda s, ml=NAN: P.BatchBALD(missing_label=ml, random_state=s),
    lambda c: dict(ensemble=ens_list(c["classes"], c.get("ml", NAN))), arbitrary_index_ok=True,
    model_arg="ensemble", nmax=25)
add("GreedyBALD", P.GreedyBALD, lambda s, ml=NAN: P.GreedyBALD(missing_label=ml, random_state=s),
    lambda c: dict(ensemble=clf_bag(c["classes"], c.get("ml", NAN))), arbitrary_index_ok=True,
    model_arg="ensemble")
add("GreedyBALD_list", P.GreedyBALD, lambda s, ml=NAN: P.GreedyBALD(missing_label=ml, random_state=s),
    lambda c: dict(ensemble=ens_list(c["classes"], c.get("ml", NAN))), arbitrary_index_ok=True,
    independent=True, perm=True, model_arg="ensemble")
# committee strategies that draw the committee's predictions from one classifier (sample_proba); the dict is caller-owned
# and carries no random_state: the draws must come from the strategy's own random state
_SAMPLE_DICT = {"n_samples": 4}


def _pwc_prior(c):
    # sample_proba needs strictly positive Dirichlet parameters (documented: class_prior > 0)
    return ParzenWindowClassifier(class_prior=1.0, classes=c["classes"], missing_label=c.get("ml", NAN), random_state=0)


add("QBC_KL_sample", P.QueryByCommittee,
    lambda s, ml=NAN: P.QueryByCommittee(sample_predictions_method_name="sample_proba", sample_predictions_dict=_SAMPLE_DICT,
                                         missing_label=ml, random_state=s),
    lambda c: dict(ensemble=_pwc_prior(c)), arbitrary_index_ok=True, model_arg="ensemble")
add("QBC_VE_sample", P.QueryByCommittee,
    lambda s, ml=NAN: P.QueryByCommittee(method="vote_entropy", sample_predictions_method_name="sample_proba",
                                         sample_predictions_dict=_SAMPLE_DICT, missing_label=ml, random_state=s),
    lambda c: dict(ensemble=_pwc_prior(c)), arbitrary_index_ok=True, model_arg="ensemble")
add("BatchBALD_sample", P.BatchBALD,
    lambda s, ml=NAN: P.BatchBALD(sample_predictions_method_name="sample_proba", sample_predictions_dict=_SAMPLE_DICT,
                                  missing_label=ml, random_state=s),
    lambda c: dict(ensemble=_pwc_prior(c)), arbitrary_index_ok=True, model_arg="ensemble", nmax=25)
add("GreedyBALD_sample", P.GreedyBALD,
    lambda s, ml=NAN: P.GreedyBALD(sample_predictions_method_name="sample_proba", sample_predictions_dict=_SAMPLE_DICT,
                                   missing_label=ml, random_state=s),
    lambda c: dict(ensemble=_pwc_prior(c)), arbitrary_index_ok=True, model_arg="ensemble")
add("CoreSet", P.CoreSet, lambda s, ml=NAN: P.CoreSet(missing_label=ml, random_state=s), kind="both",
    independent=True, perm=True)
add("TypiClust", P.TypiClust, lambda s, ml=NAN: P.TypiClust(missing_label=ml, random_state=s), kind="both",
    feat=False, lazy=True)
add("TypiClust_dict", P.TypiClust,
    lambda s, ml=NAN: P.TypiClust(missing_label=ml, random_state=s, cluster_algo_dict={"random_state": 0, "n_init": 2}),
    kind="both", feat=False, lazy=True)
add("Badge", P.Badge, lambda s, ml=NAN: P.Badge(missing_label=ml, random_state=s),
    lambda c: dict(clf=_ctx_clf(c)), selection="badge", model_arg="clf")
add("ProbCover", P.ProbCover, lambda s, ml=NAN: P.ProbCover(missing_label=ml, random_state=s), kind="both",
    feat=False, lazy=True)
add("ContrastiveAL", P.ContrastiveAL, lambda s, ml=NAN: P.ContrastiveAL(missing_label=ml, random_state=s),
    lambda c: dict(clf=_ctx_clf(c)), arbitrary_index_ok=True, independent=True, model_arg="clf", lazy=True)
add("ContrastiveAL_dict", P.ContrastiveAL,
    lambda s, ml=NAN: P.ContrastiveAL(nearest_neighbors_dict={"n_neighbors": 3}, missing_label=ml, random_state=s),
    lambda c: dict(clf=_ctx_clf(c)), arbitrary_index_ok=True, independent=True, model_arg="clf", lazy=True)
add("Clue", P.Clue, lambda s, ml=NAN: P.Clue(missing_label=ml, random_state=s),
    lambda c: dict(clf=_ctx_clf(c)), model_arg="clf", lazy=True, feat=False)
add("DropQuery", P.DropQuery, lambda s, ml=NAN: P.DropQuery(missing_label=ml, random_state=s),
    lambda c: dict(clf=_ctx_clf(c)), model_arg="clf", lazy=True, feat=False)
add("Falcun", P.Falcun, lambda s, ml=NAN: P.Falcun(missing_label=ml, random_state=s),
    lambda c: dict(clf=_ctx_clf(c)), selection="sampling", model_arg="clf")
add("FourDs", P.FourDs, lambda s, ml=NAN: P.FourDs(missing_label=ml, random_state=s),
    lambda c: dict(clf=clf_mix(c["classes"], c.get("ml", NAN))), model_arg="clf", nmax=30, lazy=True)
add("DiscriminativeAL", P.DiscriminativeAL,
    lambda s, ml=NAN: P.DiscriminativeAL(missing_label=ml, random_state=s),
    lambda c: dict(discriminator=clf_pwc(None, c.get("ml", NAN))), kind="both", model_arg="discriminator",
    feat=False)
add("DiscriminativeAL_greedy", P.DiscriminativeAL,
    lambda s, ml=NAN: P.DiscriminativeAL(greedy_selection=True, missing_label=ml, random_state=s),
    lambda c: dict(discriminator=clf_pwc(None, c.get("ml", NAN))), kind="both", arbitrary_index_ok=True,
    independent=True, model_arg="discriminator", feat=False)
add("Quire", P.Quire, lambda s, ml=NAN, classes=(0, 1, 2): P.Quire(classes=list(classes), missing_label=ml, random_state=s),
    feat=False, independent=True, perm=True, needs_classes=True, nmax=25)
add("CostEmbeddingAL", P.CostEmbeddingAL,
    lambda s, ml=NAN, classes=(0, 1, 2): P.CostEmbeddingAL(classes=list(classes), missing_label=ml, random_state=s),
    arbitrary_index_ok=True, independent=True, needs_classes=True, nmax=14, slow=4, lazy=True)
add("MonteCarloEER", P.MonteCarloEER, lambda s, ml=NAN: P.MonteCarloEER(missing_label=ml, random_state=s),
    lambda c: dict(clf=_ctx_clf(c)), arbitrary_index_ok=True, independent=True, perm=True, model_arg="clf",
    nmax=20, slow=2)
add("MonteCarloEER_log", P.MonteCarloEER,
    lambda s, ml=NAN: P.MonteCarloEER(method="log_loss", subtract_current=True, missing_label=ml, random_state=s),
    lambda c: dict(clf=_ctx_clf(c)), arbitrary_index_ok=True, independent=True, perm=True, model_arg="clf",
    nmax=20, slow=2)
add("VoIEER", P.ValueOfInformationEER,
    lambda s, ml=NAN: P.ValueOfInformationEER(missing_label=ml, random_state=s),
    lambda c: dict(clf=_ctx_clf(c)), arbitrary_index_ok=True, independent=True, perm=True, feat=False,
    model_arg="clf", nmax=20, slow=2)
add("VoIEER_sub", P.ValueOfInformationEER,
    lambda s, ml=NAN: P.ValueOfInformationEER(subtract_current=True, normalize=True, missing_label=ml, random_state=s),
    lambda c: dict(clf=_ctx_clf(c)), arbitrary_index_ok=True, independent=True, perm=True, feat=False,
    model_arg="clf", nmax=20, slow=2)
# expected error reduction around scikit-learn estimators (retraining path of IndexClassifierWrapper instead of the
# Parzen-window speed-up; with native partial_fit in the second entry)
add("MonteCarloEER_tree", P.MonteCarloEER, lambda s, ml=NAN: P.MonteCarloEER(missing_label=ml, random_state=s),
    lambda c: dict(clf=_ctx_clf(c, "tree")), arbitrary_index_ok=True, model_arg="clf", nmax=14, slow=3)
add("VoIEER_nb_pf", P.ValueOfInformationEER,
    lambda s, ml=NAN: P.ValueOfInformationEER(missing_label=ml, random_state=s),
    lambda c: dict(clf=_ctx_clf(c, "nb"), ignore_partial_fit=False), arbitrary_index_ok=True, feat=False,
    model_arg="clf", nmax=14, slow=3, domain=_nb_domain)
add("VoIEER_labeled_only", P.ValueOfInformationEER,
    lambda s, ml=NAN: P.ValueOfInformationEER(consider_unlabeled=False, consider_labeled=True, subtract_current=True, normalize=True,
                                              missing_label=ml, random_state=s),
    lambda c: dict(clf=_ctx_clf(c)), arbitrary_index_ok=True, feat=False, model_arg="clf", nmax=16, slow=2)
add("EpistemicUS", P.EpistemicUncertaintySampling,
    lambda s, ml=NAN: P.EpistemicUncertaintySampling(missing_label=ml, random_state=s),
    lambda c: dict(clf=clf_pwc(c["classes"][:2], c.get("ml", NAN))), arbitrary_index_ok=True,
    independent=True, perm=True, binary=True, model_arg="clf", nmax=25)
add("EpistemicUS_pre", P.EpistemicUncertaintySampling,
    lambda s, ml=NAN: P.EpistemicUncertaintySampling(precompute=True, missing_label=ml, random_state=s),
    # precompute=True interpolates on a grid whose extent depends on the candidate set: approximation mode,
    # no restriction claim
    lambda c: dict(clf=clf_pwc(c["classes"][:2], c.get("ml", NAN))), arbitrary_index_ok=True,
    independent=False, binary=True, model_arg="clf", nmax=25)
add("GreedySamplingX", P.GreedySamplingX, lambda s, ml=NAN: P.GreedySamplingX(missing_label=ml, random_state=s),
    kind="both", arbitrary_index_ok=True, independent=True, perm=True)
add("GreedySamplingTarget", P.GreedySamplingTarget,
    lambda s, ml=NAN: P.GreedySamplingTarget(missing_label=ml, random_state=s),
    lambda c: dict(reg=reg_nic(c.get("ml", NAN))), kind="reg", arbitrary_index_ok=True, independent=True,
    perm=True, model_arg="reg", lazy=True)
add("GreedySamplingTarget_GSy", P.GreedySamplingTarget,
    lambda s, ml=NAN: P.GreedySamplingTarget(method="GSy", missing_label=ml, random_state=s),
    lambda c: dict(reg=reg_nic(c.get("ml", NAN))), kind="reg", arbitrary_index_ok=True, model_arg="reg")
add("EMCM", P.ExpectedModelChangeMaximization,
    lambda s, ml=NAN: P.ExpectedModelChangeMaximization(missing_label=ml, random_state=s),
    lambda c: dict(reg=reg_nic(c.get("ml", NAN))), kind="reg", arbitrary_index_ok=True, independent=True,
    model_arg="reg", lazy=True)
add("EMOC", P.ExpectedModelOutputChange,
    lambda s, ml=NAN: P.ExpectedModelOutputChange(missing_label=ml, random_state=s),
    lambda c: dict(reg=reg_nic(c.get("ml", NAN))), kind="reg", arbitrary_index_ok=True, independent=True,
    perm=True, model_arg="reg", nmax=25, lazy=True)
add("EMVR", P.ExpectedModelVarianceReduction,
    lambda s, ml=NAN: P.ExpectedModelVarianceReduction(missing_label=ml, random_state=s),
    lambda c: dict(reg=reg_nic(c.get("ml", NAN))), kind="reg", arbitrary_index_ok=True, independent=True,
    perm=True, model_arg="reg", nmax=25, lazy=True)
add("KLDM", P.KLDivergenceMaximization,
    lambda s, ml=NAN: P.KLDivergenceMaximization(missing_label=ml, random_state=s),
    lambda c: dict(reg=reg_nic(c.get("ml", NAN))), kind="reg", arbitrary_index_ok=True, independent=True,
    perm=True, model_arg="reg", nmax=14, slow=4, lazy=True)
for _m in ["random", "diversity", "representativity"]:
    add("RT_" + _m, P.RegressionTreeBasedAL,
        lambda s, ml=NAN, m=_m: P.RegressionTreeBasedAL(method=m, missing_label=ml, random_state=s),
        lambda c: dict(reg=reg_tree(c.get("ml", NAN))), kind="reg", selection="rt", model_arg="reg")

# ---- variants whose constructor parameters are caller-owned ARRAYS (unsorted / float64 / asymmetric), so that an
# in-place operation on a parameter (sort, normalisation, fill_diagonal ...) becomes visible to the C05/C13 monitors
_CM = lambda: np.array([[0.0, 2.0, 1.0], [0.5, 0.0, 3.0], [1.5, 1.0, 0.0]])
add("ProbCover_deltas", P.ProbCover,
    lambda s, ml=NAN: P.ProbCover(deltas=np.array([1.0, 0.4, 1.6, 0.2, 0.8]), missing_label=ml, random_state=s),
    kind="both", feat=False, lazy=True)
add("ProbCover_nclasses", P.ProbCover,
    lambda s, ml=NAN: P.ProbCover(n_classes=3, alpha=0.8, cluster_algo_dict={"n_init": 1}, missing_label=ml, random_state=s),
    kind="both", feat=False, lazy=True)
add("MonteCarloEER_cm", P.MonteCarloEER,
    lambda s, ml=NAN: P.MonteCarloEER(cost_matrix=_CM(), missing_label=ml, random_state=s),
    lambda c: dict(clf=_ctx_clf(c)), arbitrary_index_ok=True, independent=True, perm=True, model_arg="clf", nmax=16, slow=2,
    lazy=True)
add("VoIEER_cm", P.ValueOfInformationEER,
    lambda s, ml=NAN: P.ValueOfInformationEER(cost_matrix=_CM(), consider_labeled=False, missing_label=ml, random_state=s),
    lambda c: dict(clf=_ctx_clf(c)), arbitrary_index_ok=True, independent=True, perm=True, feat=False, model_arg="clf", nmax=16,
    slow=2, lazy=True)
add("CostEmbeddingAL_cm", P.CostEmbeddingAL,
    lambda s, ml=NAN, classes=(0, 1, 2): P.CostEmbeddingAL(classes=list(classes), cost_matrix=_CM(), mds_params={"n_init": 1},
                                                         nn_params={"algorithm": "brute"}, missing_label=ml, random_state=s),
    arbitrary_index_ok=True, independent=True, needs_classes=True, nmax=12, slow=4, lazy=True)
add("TypiClust_k", P.TypiClust, lambda s, ml=NAN: P.TypiClust(k=2, missing_label=ml, random_state=s), kind="both", feat=False, lazy=True)
add("Quire_lmbda", P.Quire,
    lambda s, ml=NAN, classes=(0, 1, 2): P.Quire(classes=list(classes), lmbda=0.3, metric_dict={"gamma": 0.5}, missing_label=ml, random_state=s),
    feat=False, independent=True, perm=True, needs_classes=True, nmax=20, lazy=True)

# caller-owned cluster_algo_dict WITHOUT a random_state entry (the strategy has to seed its clustering itself and must
# neither write into the caller's dict nor reuse a generator across queries)
add("TypiClust_userdict", P.TypiClust,
    lambda s, ml=NAN: P.TypiClust(cluster_algo_dict={"n_init": 1}, missing_label=ml, random_state=s), kind="both", feat=False, lazy=True)
add("Clue_userdict", P.Clue, lambda s, ml=NAN: P.Clue(cluster_algo_dict={"n_init": 1}, missing_label=ml, random_state=s),
    lambda c: dict(clf=_ctx_clf(c)), model_arg="clf", lazy=True, feat=False)
add("DropQuery_userdict", P.DropQuery,
    lambda s, ml=NAN: P.DropQuery(cluster_algo_dict={"n_init": 1}, missing_label=ml, random_state=s),
    lambda c: dict(clf=_ctx_clf(c)), model_arg="clf", lazy=True, feat=False)

# ---- rarely used (documented) parameters
add("Falcun_gamma0", P.Falcun, lambda s, ml=NAN: P.Falcun(gamma=0, missing_label=ml, random_state=s),
    lambda c: dict(clf=_ctx_clf(c)), selection="sampling", model_arg="clf")
add("Falcun_gamma_frac", P.Falcun, lambda s, ml=NAN: P.Falcun(gamma=0.5, missing_label=ml, random_state=s),
    lambda c: dict(clf=_ctx_clf(c, "nb")), selection="sampling", model_arg="clf", domain=_nb_domain)
add("DropQuery_params", P.DropQuery,
    lambda s, ml=NAN: P.DropQuery(dropout_rate=0.3, n_dropout_samples=3, missing_label=ml, random_state=s),
    lambda c: dict(clf=_ctx_clf(c)), model_arg="clf", lazy=True, feat=False)
add("EMCM_params", P.ExpectedModelChangeMaximization,
    lambda s, ml=NAN: P.ExpectedModelChangeMaximization(bootstrap_size=2, n_train=0.9, ord=1, missing_label=ml, random_state=s),
    lambda c: dict(reg=reg_tree(c.get("ml", NAN))), kind="reg", arbitrary_index_ok=True, model_arg="reg")
add("GreedySamplingX_manhattan", P.GreedySamplingX,
    lambda s, ml=NAN: P.GreedySamplingX(metric="manhattan", missing_label=ml, random_state=s), kind="both",
    arbitrary_index_ok=True, independent=True, perm=True)
add("GreedySamplingTarget_nGSx3", P.GreedySamplingTarget,
    lambda s, ml=NAN: P.GreedySamplingTarget(n_GSx_samples=3, y_metric="manhattan", missing_label=ml, random_state=s),
    lambda c: dict(reg=reg_tree(c.get("ml", NAN))), kind="reg", arbitrary_index_ok=True, model_arg="reg")
add("GreedySamplingTarget_nGSx0", P.GreedySamplingTarget,
    lambda s, ml=NAN: P.GreedySamplingTarget(n_GSx_samples=0, method="GSy" if s % 2 else "GSi", missing_label=ml, random_state=s),
    lambda c: dict(reg=reg_nic(c.get("ml", NAN))), kind="reg", arbitrary_index_ok=True, model_arg="reg")
add("EpistemicUS_logreg", P.EpistemicUncertaintySampling,
    lambda s, ml=NAN: P.EpistemicUncertaintySampling(missing_label=ml, random_state=s),
    lambda c: dict(clf=clf_lr(c["classes"][:2], c.get("ml", NAN))), arbitrary_index_ok=True, binary=True, model_arg="clf", nmax=14,
    slow=3, domain=lambda c: None if (c.n_classes_obs or 0) >= 2 else "logistic regression needs two observed classes")
add("ProbabilisticAL_prior", P.ProbabilisticAL,
    lambda s, ml=NAN: P.ProbabilisticAL(prior=0.01, m_max=3, missing_label=ml, random_state=s),
    lambda c: dict(clf=_ctx_clf(c)), arbitrary_index_ok=True, independent=True, perm=True, model_arg="clf")
add("BatchBALD_nMC", P.BatchBALD, lambda s, ml=NAN: P.BatchBALD(n_MC_samples=4, eps=1e-3, missing_label=ml, random_state=s),
    lambda c: dict(ensemble=ens_list(c["classes"], c.get("ml", NAN))), arbitrary_index_ok=True, model_arg="ensemble", nmax=16)
# fewer Monte-Carlo samples than ensemble members
add("BatchBALD_nMC1", P.BatchBALD, lambda s, ml=NAN: P.BatchBALD(n_MC_samples=1 + s % 2, missing_label=ml, random_state=s),
    lambda c: dict(ensemble=ens_list(c["classes"], c.get("ml", NAN))), arbitrary_index_ok=True, model_arg="ensemble", nmax=16)
add("Clue_margin", P.Clue, lambda s, ml=NAN: P.Clue(method="margin_sampling", missing_label=ml, random_state=s),
    lambda c: dict(clf=_ctx_clf(c, "tree")), model_arg="clf", lazy=True, feat=False)
add("FourDs_lmbda", P.FourDs, lambda s, ml=NAN: P.FourDs(lmbda=0.3, missing_label=ml, random_state=s),
    lambda c: dict(clf=clf_mix(c["classes"], c.get("ml", NAN))), model_arg="clf", nmax=20)
add("ContrastiveAL_eps", P.ContrastiveAL,
    lambda s, ml=NAN: P.ContrastiveAL(eps=1e-2, nearest_neighbors_dict={"n_neighbors": 2}, missing_label=ml, random_state=s),
    lambda c: dict(clf=_ctx_clf(c, "tree")), arbitrary_index_ok=True, model_arg="clf", lazy=True)
add("RT_repr_iter1", P.RegressionTreeBasedAL,
    lambda s, ml=NAN: P.RegressionTreeBasedAL(method="representativity", max_iter_representativity=1, missing_label=ml, random_state=s),
    lambda c: dict(reg=reg_tree(c.get("ml", NAN))), kind="reg", selection="rt", model_arg="reg")
add("US_margin_cost", P.UncertaintySampling,
    lambda s, ml=NAN: P.UncertaintySampling(method="margin_sampling", cost_matrix=_CM(), missing_label=ml, random_state=s),
    # (no permutation relation: scikit-learn's lbfgs solver stops at a point that depends on the row order, up to 1e-3
    # relative on badly conditioned data - the relation is decided by the entries around exact models)
    lambda c: dict(clf=_ctx_clf(c, "lr")), arbitrary_index_ok=True, independent=True, perm=False, model_arg="clf",
    domain=lambda c: None if (c.n_classes_obs or 0) >= 2 else "logistic regression needs two observed classes")

# ---- precomputed kernel: X is the caller's (n, n) kernel matrix, a float64 array the strategy must not write to
def _rbf_kernel(X):
    from sklearn.metrics.pairwise import rbf_kernel
    return np.ascontiguousarray(rbf_kernel(X, gamma=0.5), dtype=float)


add("Quire_precomputed", P.Quire,
    lambda s, ml=NAN, classes=(0, 1, 2): P.Quire(classes=list(classes), metric="precomputed", lmbda=0.5, missing_label=ml, random_state=s),
    feat=False, needs_classes=True, nmax=16, lazy=True)
POOL["Quire_precomputed"].x_transform = _rbf_kernel

# ---- the two pool wrappers are exported pool strategies themselves: as top-level entries they take part in C01 / C02 /
# C05 / C06 / C09 and (parallel wrapper, whose domain is batch_size = 1) in the C14 loop
add("Sub_US", P.SubSamplingWrapper,
    lambda s, ml=NAN: P.SubSamplingWrapper(P.UncertaintySampling(method="entropy", missing_label=ml, random_state=s),
                                           max_candidates=0.5, missing_label=ml, random_state=s),
    lambda c: dict(clf=_ctx_clf(c)), model_arg="clf", lazy=True)
add("Sub_excl_RS", P.SubSamplingWrapper,
    lambda s, ml=NAN: P.SubSamplingWrapper(P.RandomSampling(missing_label=ml, random_state=s), max_candidates=3,
                                           exclude_non_subsample=True, missing_label=ml, random_state=s),
    kind="both", lazy=True, domain=lambda c: "exclude_non_subsample with feature rows needs a labelled sample"
    if (c.cmode == "feat" and c.n_labeled == 0) else None)
add("Par_US", P.ParallelUtilityEstimationWrapper,
    lambda s, ml=NAN: P.ParallelUtilityEstimationWrapper(P.UncertaintySampling(method="margin_sampling", missing_label=ml, random_state=s),
                                                         n_jobs=-1, parallel_dict={"backend": "threading"}, missing_label=ml, random_state=s),
    lambda c: dict(clf=_ctx_clf(c)), model_arg="clf", lazy=True)
# dictionary parameters that carry a RandomState INSTANCE (caller-owned, like the dictionary itself): a query must neither
# advance it (C05: get_params unchanged) nor answer a repeated call differently (C06)
def _rs(k):
    return np.random.RandomState(k)


add("TypiClust_dict_rs", P.TypiClust,
    lambda s, ml=NAN: P.TypiClust(missing_label=ml, random_state=s, cluster_algo_dict={"random_state": _rs(3), "n_init": 2}),
    kind="both", feat=False, lazy=True)
add("Clue_dict_rs", P.Clue,
    lambda s, ml=NAN: P.Clue(missing_label=ml, random_state=s, cluster_algo_dict={"random_state": _rs(4), "n_init": 2}),
    lambda c: dict(clf=_ctx_clf(c)), model_arg="clf", lazy=True, feat=False)
add("DropQuery_dict_rs", P.DropQuery,
    lambda s, ml=NAN: P.DropQuery(missing_label=ml, random_state=s, cluster_algo_dict={"random_state": _rs(5), "n_init": 2}),
    lambda c: dict(clf=_ctx_clf(c)), model_arg="clf", lazy=True, feat=False)
add("ProbCover_dict_rs", P.ProbCover,
    lambda s, ml=NAN: P.ProbCover(missing_label=ml, random_state=s, cluster_algo_dict={"random_state": _rs(6), "n_init": 2}),
    kind="both", feat=False, lazy=True)
add("CostEmbeddingAL_mds_rs", P.CostEmbeddingAL,
    lambda s, ml=NAN, classes=(0, 1, 2): P.CostEmbeddingAL(classes=list(classes), mds_params={"random_state": _rs(7), "n_init": 2},
                                                           missing_label=ml, random_state=s),
    arbitrary_index_ok=True, needs_classes=True, nmax=14, slow=4, lazy=True)
add("QBC_KL_sample_rs", P.QueryByCommittee,
    lambda s, ml=NAN: P.QueryByCommittee(sample_predictions_method_name="sample_proba",
                                         sample_predictions_dict={"n_samples": 4, "random_state": _rs(8)}, missing_label=ml, random_state=s),
    lambda c: dict(ensemble=_pwc_prior(c)), arbitrary_index_ok=True, model_arg="ensemble")


def _mixture_domain(case):
    """A Gaussian mixture cannot be estimated from a handful of duplicated 48-dimensional binary rows (scikit-learn:
    'ill-defined empirical covariance'): requirement of the third-party model."""
    return "Gaussian mixture not estimable from duplicated high-dimensional binary rows" if case.data == "bow" else None


for _n in ("FourDs", "FourDs_lmbda"):
    POOL[_n].domain = _mixture_domain
for _n in ("EpistemicUS_logreg", "US_margin_cost"):
    POOL[_n].no_cold = True            # the logistic regression model needs two observed classes
for _n in ("Sub_US", "Sub_excl_RS", "Par_US"):
    POOL[_n].is_wrapper = True
POOL["Par_US"].bs1_only = True          # documented domain of the parallel wrapper
POOL["Sub_US"].loop = False             # a sub-sample smaller than the batch changes the number of cycles of an AL loop
POOL["Sub_excl_RS"].loop = False

POOL_WRAPPERS = {"SubSamplingWrapper", "ParallelUtilityEstimationWrapper"}
POOL_NON_STRATEGY = {"multiannotator", "utils", "cost_reduction", "uncertainty_scores",
                     "expected_average_precision", "average_kl_divergence", "vote_entropy",
                     "variation_ratios", "batch_bald", "k_greedy_center"}


def missing_from_registry():
    """Exported pool strategy classes that no registry entry covers."""
    covered = {e.cls.__name__ for e in POOL.values()} | POOL_WRAPPERS
    out = []
    for n in P.__all__:
        o = getattr(P, n)
        if inspect.isclass(o) and hasattr(o, "query") and n not in covered:
            out.append(n)
    return out


# --------------------------------------------------------------------------- stream
STREAM_STRATEGIES = [n for n in S.__all__ if inspect.isclass(getattr(S, n))]
BUDGET_MANAGERS = [n for n in B.__all__ if inspect.isclass(getattr(B, n))]
