"""Stream infrastructure: factories for every stream strategy / budget manager, an exact stub
classifier, utility stream generators, chunkers and a recording driver (boundary histories)."""
import inspect

import numpy as np

import skactiveml.stream as S
import skactiveml.stream.budgetmanager as B
from skactiveml.base import SkactivemlClassifier
from skactiveml.classifier import ParzenWindowClassifier

from vf.monitors import state as st, steps

CLASSES = [0, 1]


class StubClf(SkactivemlClassifier):
    """Exact stub: predict_proba = [1-p, p] with p = clip(x0, 0, 1) - comparisons and copies only, so
    the utilities seen by the strategy do not depend on the chunk a sample arrives in."""

    def __init__(self, classes=(0, 1), missing_label=np.nan, cost_matrix=None, random_state=None):
        super().__init__(classes=classes, missing_label=missing_label, cost_matrix=cost_matrix,
                         random_state=random_state)

    def fit(self, X, y, sample_weight=None):
        self.classes_ = np.asarray(self.classes)
        self.is_fitted_ = True
        return self

    def predict_proba(self, X):
        X = np.asarray(X, dtype=float)
        p = np.clip(X[:, 0], 0.0, 1.0)
        return np.column_stack([1.0 - p, p])


def stub_clf():
    return StubClf().fit(np.zeros((1, 1)), np.zeros(1))


def pwc_clf(rng, d):
    X = rng.rand(12, d)
    y = (X[:, 0] > 0.5).astype(float)
    y[rng.rand(12) < 0.3] = np.nan
    return ParzenWindowClassifier(classes=[0, 1], random_state=0).fit(X, y)


BM_NAMES = [n for n in B.__all__ if inspect.isclass(getattr(B, n)) and not inspect.isabstract(getattr(B, n))]
STRAT_NAMES = [n for n in S.__all__ if inspect.isclass(getattr(S, n))]
ZLIOBAITE_BMS = ["FixedUncertaintyBudgetManager", "VariableUncertaintyBudgetManager",
                 "RandomVariableUncertaintyBudgetManager", "SplitBudgetManager", "RandomBudgetManager"]
BASELINES = ["StreamRandomSampling", "PeriodicSampling"]
NEEDS_FREQ = ["StreamProbabilisticAL"]


def variant_kwargs(name, seed):
    """Non-default constructor parameters (deterministic in `seed`): every second object keeps the defaults."""
    r = np.random.RandomState(int(seed) % (2**31 - 1))
    if r.rand() < 0.4:
        return {}
    table = {
        "StreamRandomSampling": {"allow_exceeding_budget": [True, False, False]},
        "SplitBudgetManager": {"v": [0.1, 0.5, 0.9], "theta": [1.0, 0.6], "s": [0.01, 0.2]},
        "Split": {},
        "VariableUncertaintyBudgetManager": {"theta": [1.0, 0.5], "s": [0.01, 0.2, 0.5]},
        "RandomVariableUncertaintyBudgetManager": {"delta": [1.0, 0.1, 3.0], "theta": [1.0, 0.7], "s": [0.01, 0.3]},
        "DensityBasedSplitBudgetManager": {"delta": [1.0, 0.2], "theta": [1.0, 0.5], "s": [0.01, 0.3]},
        "BalancedIncrementalQuantileFilter": {"w_tol": [50, 3, 200.0]},
        "StreamProbabilisticAL": {"prior": [0.001, 1.0], "m_max": [2, 1, 3]},
        "StreamDensityBasedAL": {"window_size": [100, 3, 8]},
    }
    if name.startswith("CognitiveDual"):
        opts = {"density_threshold": [1, 2], "cognition_window_size": [10, 3, 6]}
    else:
        opts = table.get(name, {})
    return {k: v[r.randint(len(v))] for k, v in opts.items()}


def make_bm(name, budget, w, seed, **extra):
    cls = getattr(B, name)
    params = inspect.signature(cls.__init__).parameters
    kw = {"budget": budget}
    if "w" in params:
        kw["w"] = w
    if "random_state" in params:
        kw["random_state"] = seed
    if "classes" in params:
        kw["classes"] = CLASSES
    if "w_tol" in params:
        kw["w_tol"] = max(1, w // 2)
    kw.update(extra)
    return cls(**kw)


def make_strategy(name, budget, seed, bm=None, **extra):
    cls = getattr(S, name)
    params = inspect.signature(cls.__init__).parameters
    kw = {"budget": budget, "random_state": seed}
    if "classes" in params:
        kw["classes"] = CLASSES
    if bm is not None and "budget_manager" in params:
        kw["budget_manager"] = bm
    kw.update({k: v for k, v in extra.items() if k in params})
    return cls(**kw)


def compatible_bms(name):
    """Explicit budget managers a strategy can be combined with (None = its default)."""
    if name in BASELINES or "budget_manager" not in inspect.signature(getattr(S, name).__init__).parameters:
        return [None]
    if name == "StreamProbabilisticAL":
        return [None, "BalancedIncrementalQuantileFilter"]
    if name == "StreamDensityBasedAL":
        return [None, "DensityBasedSplitBudgetManager", "FixedUncertaintyBudgetManager", "VariableUncertaintyBudgetManager",
                "RandomBudgetManager", "SplitBudgetManager", "BalancedIncrementalQuantileFilter"]
    if name == "CognitiveDualQueryStrategy":
        return [None] + ZLIOBAITE_BMS[1:]
    return [None] + ZLIOBAITE_BMS


UTIL_STREAMS = ["const1", "const_big", "const0", "nan_bursts", "inf", "alternating", "ascending",
                "descending", "uniform", "dyadic", "near_budget"]


def utility_stream(rng, kind, n, budget=0.1):
    if kind == "const1":
        u = np.ones(n)
    elif kind == "const_big":
        u = np.full(n, 7.5)
    elif kind == "const0":
        u = np.zeros(n)
    elif kind == "nan_bursts":
        u = rng.rand(n)
        for s in rng.randint(0, n, size=max(1, n // 20)):
            u[s:s + rng.randint(1, 8)] = np.nan
    elif kind == "inf":
        u = rng.rand(n)
        u[rng.rand(n) < 0.1] = np.inf
        u[rng.rand(n) < 0.1] = -np.inf
    elif kind == "alternating":
        u = np.tile([0.0, 1.0], n // 2 + 1)[:n]
    elif kind == "ascending":
        u = np.linspace(0, 1, n)
    elif kind == "descending":
        u = np.linspace(1, 0, n)
    elif kind == "uniform":
        u = rng.rand(n)
    elif kind == "dyadic":
        u = rng.randint(0, 65, size=n) / 64.0
    elif kind == "near_budget":
        u = np.clip(budget + (rng.randint(-3, 4, size=n) / 64.0), 0, 1)
    else:
        raise ValueError(kind)
    return u


def feature_stream(rng, n, d, kind="dyadic"):
    """Feature stream whose first column is an exactly representable probability (dyadic rational)."""
    X = rng.randint(0, 9, size=(n, d)) / 8.0
    if kind == "dyadic":
        X[:, 0] = rng.randint(0, 65, size=n) / 64.0
    elif kind == "uncertain":      # maximally uncertain everywhere
        X[:, 0] = 0.5
    elif kind == "clustered":
        X[:, 0] = np.where(rng.rand(n) < 0.5, 0.5, rng.randint(0, 65, size=n) / 64.0)
        X[:, 1:] = np.round(X[:, 1:] * 2) / 2
    return X


def chunking(rng, n, kind):
    """List of (start, end)."""
    if kind == "one":
        sizes = [1] * n
    elif kind == "whole":
        sizes = [n]
    else:
        hi = {"small": 12, "large": 40}.get(kind, 15)
        sizes = []
        left = n
        while left > 0:
            s = int(min(left, rng.randint(1, hi + 1)))
            sizes.append(s)
            left -= s
    out, pos = [], 0
    for s in sizes:
        out.append((pos, pos + s))
        pos += s
    return out


def needs_clf(strategy):
    return "clf" in inspect.signature(strategy.query).parameters


def query_strategy(qs, cand, clf, return_utilities=True, X=None, y=None):
    if needs_clf(qs):
        if X is not None:
            return qs.query(cand, clf=clf, X=X, y=y, return_utilities=return_utilities)
        return qs.query(cand, clf=clf, return_utilities=return_utilities)
    return qs.query(cand, return_utilities=return_utilities)


def update_strategy(qs, cand, idx, utilities):
    kw = {}
    if "budget_manager_param_dict" in inspect.signature(qs.update).parameters:
        bm = getattr(qs, "budget_manager_", None)
        if bm is not None and "utilities" in inspect.signature(bm.update).parameters:
            kw["budget_manager_param_dict"] = {"utilities": utilities}
    return qs.update(cand, idx, **kw)


def update_bm(bm, cand, idx, utilities):
    if "utilities" in inspect.signature(bm.update).parameters:
        return bm.update(cand, idx, utilities)
    return bm.update(cand, idx)


def state_fp(obj):
    """All fitted state of a strategy / budget manager (nested budget_manager_ included)."""
    # n_features_in_ is input-validation bookkeeping that every query re-derives from its own
    # argument (reset=True); it carries no state from call to call and is excluded (DESIGN 5.10)
    return st.fitted_fp(obj, skip=("n_features_in_",))
