"""Runner of the runtime-monitoring checks.

A property module (vf/props/cXX.py) provides

    PROPERTY, RULE, ASSUMPTIONS, TECHNIQUE
    gen_cases(tier, seed) -> list of JSON-able case descriptors (each with a unique "id")
    run_case(desc)        -> result dict (see `worker.run_one`)
    REQUIRED_MONITORS     -> names of monitors whose evaluation count must be > 0
    REQUIRED_CELLS(tier)  -> optional: set of grid cells that must be hit

The runner shards the cases over worker *subprocesses* (a multiprocessing.Pool would
hang for ever if a child died), collects the JSONL result streams, matches the
violations against the committed known-findings file, writes the evidence file and
replay files and prints the verdict lines.

Verdicts are three-valued and never folded:
    held          -> exit 0
    violated      -> "VIOLATION property=<id> replay=<path>" per mechanism, exit 1
    inconclusive  -> "INCONCLUSIVE property=<id> reason=..." , exit 2
"""
import collections
import hashlib
import importlib
import json
import os
import subprocess
import sys
import time

ROOT = os.path.dirname(os.path.dirname(os.path.abspath(__file__)))
REPO = os.environ.get("VERIF_REPO", "/repo")
PY = os.environ.get("VERIF_PYTHON", "/venv/bin/python")
GUARD = "SKACTIVEML_VERIF"
NPROC = int(os.environ.get("VERIF_JOBS", "16"))


def stable_hash(*parts):
    h = hashlib.sha256(json.dumps(parts, sort_keys=True, default=str).encode()).digest()
    return int.from_bytes(h[:4], "big")


def child_env():
    env = dict(os.environ)
    env["PYTHONPATH"] = os.pathsep.join([REPO, ROOT, os.path.join(ROOT, ".deps")])
    env["PYTHONHASHSEED"] = "0"
    env["PYTHONDONTWRITEBYTECODE"] = "1"
    for k in ("OMP_NUM_THREADS", "OPENBLAS_NUM_THREADS", "MKL_NUM_THREADS", "NUMEXPR_NUM_THREADS"):
        env[k] = "1"
    env[GUARD] = "1"
    env["VERIF_REPO"] = REPO
    return env


def load_known_findings():
    path = os.path.join(ROOT, "known_findings.json")
    if not os.path.exists(path):
        return {"known": [], "fixed": []}
    with open(path) as f:
        return json.load(f)


def finding_matches(entry, prop, v):
    return (
        entry.get("property") == prop
        and entry.get("component") == v.get("component")
        and (entry.get("kind") == v.get("kind") or v.get("kind") in (entry.get("kinds") or ()))
        and entry.get("trigger") == v.get("trigger")
    )


def load_prop(prop):
    return importlib.import_module("vf.props.%s" % prop.lower())


def run_property(prop, tier, seed, only_ids=None, keep_tmp=False):
    t0 = time.time()
    mod = load_prop(prop)
    cases = mod.gen_cases(tier, seed)
    ids = [c["id"] for c in cases]
    assert len(set(ids)) == len(ids), "case ids must be unique"
    if only_ids:
        cases = [c for c in cases if c["id"] in only_ids]
    tmp = os.path.join(ROOT, ".work", "%s_%s_%d_%d" % (prop, tier, seed, os.getpid()))
    os.makedirs(tmp, exist_ok=True)
    nshard = max(1, min(NPROC, len(cases)))
    # interleave so that every shard gets a mix of cheap and expensive cases
    shards = [cases[i::nshard] for i in range(nshard)]
    procs = []
    budget_s = getattr(mod, "WALL_BUDGET", {"quick": 900, "thorough": 5400})[tier]
    for i, sh in enumerate(shards):
        cf = os.path.join(tmp, "cases_%d.json" % i)
        of = os.path.join(tmp, "out_%d.jsonl" % i)
        with open(cf, "w") as f:
            json.dump(sh, f)
        lf = open(os.path.join(tmp, "log_%d.txt" % i), "w")
        p = subprocess.Popen(
            [PY, "-m", "vf.worker", prop, cf, of, tier],
            env=child_env(), cwd=ROOT, stdout=lf, stderr=subprocess.STDOUT,
        )
        procs.append((p, of, lf, sh))
    deadline = time.time() + budget_s
    watchdog_fired = False
    for p, of, lf, sh in procs:
        try:
            p.wait(timeout=max(1.0, deadline - time.time()))
        except subprocess.TimeoutExpired:
            p.kill()
            p.wait()
            watchdog_fired = True
        lf.close()
    # ---- collect
    results = []
    inconclusive = []
    if watchdog_fired:
        inconclusive.append("wall-clock watchdog (%ds) stopped a shard" % budget_s)
    for i, (p, of, lf, sh) in enumerate(procs):
        started = None
        done = set()
        if os.path.exists(of):
            with open(of) as f:
                for line in f:
                    try:
                        r = json.loads(line)
                    except ValueError:
                        continue
                    if r.get("event") == "start":
                        started = r["id"]
                    elif r.get("event") == "result":
                        results.append(r)
                        done.add(r["id"])
        missing = [c["id"] for c in sh if c["id"] not in done]
        if missing:
            log_tail = ""
            try:
                with open(os.path.join(tmp, "log_%d.txt" % i)) as f:
                    log_tail = f.read()[-400:].replace("\n", " | ")
            except OSError:
                pass
            inconclusive.append(
                "shard %d ended (rc=%s) with %d cases not executed; in progress: %s; log: %s"
                % (i, p.returncode, len(missing), started, log_tail)
            )
    verdict = aggregate(mod, prop, tier, seed, cases, results, inconclusive, time.time() - t0)
    if not keep_tmp and not os.environ.get("VERIF_KEEP_WORK"):
        import shutil
        shutil.rmtree(tmp, ignore_errors=True)
    return verdict


def aggregate(mod, prop, tier, seed, cases, results, inconclusive, wall):
    by_id = {c["id"]: c for c in cases}
    kf = load_known_findings()
    monitors = collections.Counter()
    cells = collections.Counter()
    nt_keys = set()
    executed = 0
    skipped = collections.Counter()
    samples = []
    nt_samples = []
    groups = collections.OrderedDict()
    extra = collections.Counter()
    maxima = {}
    for r in results:
        for k, v in (r.get("monitors") or {}).items():
            monitors[k] += v
        if r.get("status") == "skip":
            skipped[r.get("skip_reason", "out-of-domain")] += 1
            continue
        if r.get("status") == "inconclusive":
            inconclusive.append("case %s: %s" % (r["id"], r.get("reason")))
            continue
        executed += 1
        for c in r.get("cells") or []:
            cells[c if isinstance(c, str) else "|".join(map(str, c))] += 1
        for k, v in (r.get("counters") or {}).items():
            extra[k] += v
        for k, v in (r.get("maxima") or {}).items():
            maxima[k] = max(maxima.get(k, v), v)
        for key in r.get("nt_keys") or ([r["nt_key"]] if r.get("nontrivial") else []):
            nt_keys.add(key)
        samp = {"case": by_id.get(r["id"]), "observed": r.get("observed")}
        if r.get("nontrivial") or r.get("nt_keys"):
            if len(nt_samples) < 4:
                nt_samples.append(samp)
        elif len(samples) < 2:
            samples.append(samp)
        for v in r.get("violations") or []:
            if v.get("kind") == "oracle-error":
                # the monitor itself failed: that decides nothing about the code under test
                inconclusive.append("case %s: oracle of %s raised %s" % (r["id"], v.get("component"), v.get("detail")))
                continue
            key = (v.get("component"), v.get("kind"), v.get("trigger"))
            g = groups.setdefault(key, {"first": None, "count": 0, "cases": []})
            g["count"] += 1
            if g["first"] is None:
                g["first"] = (r, v)
            if len(g["cases"]) < 5:
                g["cases"].append(r["id"])
    # ---- violations vs known findings
    lines = []
    n_new = 0
    known_seen = []
    os.makedirs(os.path.join(ROOT, "replays", prop), exist_ok=True)
    for key, g in groups.items():
        r, v = g["first"]
        entry = next((e for e in kf.get("known", []) if finding_matches(e, prop, v)), None)
        if entry is not None:
            known_seen.append({"finding": entry.get("id"), "count": g["count"], "example_case": r["id"]})
            continue
        n_new += 1
        name = "%s_%s.json" % (tier, hashlib.sha1(json.dumps(key, default=str).encode()).hexdigest()[:10])
        path = os.path.join(ROOT, "replays", prop, name)
        with open(path, "w") as f:
            json.dump({"property": prop, "tier": tier, "seed": seed, "case": by_id.get(r["id"]),
                       "violation": v, "occurrences": g["count"], "other_cases": g["cases"]},
                      f, indent=1, default=str)
        lines.append("VIOLATION property=%s replay=%s" % (prop, os.path.relpath(path, ROOT)))
        lines.append("  component=%s kind=%s trigger=%s n=%d detail=%s" % (
            v.get("component"), v.get("kind"), v.get("trigger"), g["count"], str(v.get("detail"))[:300]))
    # every listed finding of this property is reported, with the number of times this run reproduced it
    seen_count = collections.Counter()
    for ks in known_seen:
        seen_count[ks["finding"]] += ks["count"]
    for e in kf.get("known", []):
        if e.get("property") == prop:
            n_seen = seen_count.get(e.get("id"), 0)
            lines.insert(0, "KNOWN-FINDING: property=%s %s [%s; %s]" % (
                prop, e["what"], e.get("id"), "reproduced %d times in this run" % n_seen if n_seen else "not reproduced in this run"))
    # ---- inconclusive conditions
    for m in getattr(mod, "REQUIRED_MONITORS", []):
        if monitors.get(m, 0) == 0:
            inconclusive.append("deciding monitor '%s' was never evaluated" % m)
    req_cells = getattr(mod, "required_cells", None)
    if req_cells is not None and not os.environ.get("VERIF_ONLY"):
        missing = [c for c in req_cells(tier) if cells.get(c, 0) == 0]
        if missing:
            inconclusive.append("required grid cells without an in-domain case: %s" % missing[:8])
    if executed == 0:
        inconclusive.append("no case was executed")
    if len(nt_keys) < 2 and not os.environ.get("VERIF_ONLY"):
        inconclusive.append("fewer than 2 distinct non-trivial cases observed")
    # ---- evidence
    ev = {
        "property_id": prop,
        "tier": tier,
        "seed": int(seed),
        "level": "exploration",
        "coverage": {
            "evaluations": executed,
            "distinct_nontrivial": len(nt_keys),
            "rule": mod.RULE,
            "samples": (nt_samples + samples) or [{"note": "no case executed"}],
            "generated_cases": len(cases),
            "out_of_domain_skipped": dict(skipped),
            "monitor_evaluations": dict(monitors),
            "grid_cells_hit": len(cells),
            "grid": dict(sorted(cells.items())) if len(cells) <= 400 else
                    {"(truncated)": len(cells), **dict(sorted(cells.items())[:400])},
            "counters": dict(extra),
            "maxima": maxima,
            "known_findings_seen": known_seen,
            "violation_groups": [
                {"component": k[0], "kind": k[1], "trigger": k[2], "count": g["count"], "cases": g["cases"]}
                for k, g in groups.items()
            ],
            "inconclusive_reasons": inconclusive,
            "exhaustive": False,
        },
        "assumptions": list(getattr(mod, "ASSUMPTIONS", [])),
        "wall_s": round(wall, 2),
        "violations": n_new,
    }
    if not os.environ.get("VERIF_NO_EVIDENCE"):
        os.makedirs(os.path.join(ROOT, "evidence"), exist_ok=True)
        with open(os.path.join(ROOT, "evidence", "%s.json" % prop), "w") as f:
            json.dump(ev, f, indent=1, default=str)
    for ln in lines:
        print(ln)
    print("SUMMARY property=%s tier=%s seed=%s cases=%d executed=%d skipped=%d nontrivial_distinct=%d "
          "monitor_evals=%d cells=%d violations=%d known=%d wall=%.1fs" % (
              prop, tier, seed, len(cases), executed, sum(skipped.values()), len(nt_keys),
              sum(monitors.values()), len(cells), n_new, len(known_seen), wall))
    if n_new:
        return 1
    if inconclusive:
        for why in inconclusive[:10]:
            print("INCONCLUSIVE property=%s reason=%s" % (prop, why))
        return 2
    print("HELD property=%s on %d executions (%d distinct non-trivial)" % (prop, executed, len(nt_keys)))
    return 0


def replay(prop, path):
    """Re-run the single case of a replay file in a fresh monitored process."""
    with open(path) as f:
        rp = json.load(f)
    case = rp["case"]
    tmp = os.path.join(ROOT, ".work", "replay_%d" % os.getpid())
    os.makedirs(tmp, exist_ok=True)
    cf, of = os.path.join(tmp, "c.json"), os.path.join(tmp, "o.jsonl")
    with open(cf, "w") as f:
        json.dump([case], f)
    subprocess.run([PY, "-m", "vf.worker", prop, cf, of, rp.get("tier", "quick")],
                   env=child_env(), cwd=ROOT, timeout=1800)
    out = []
    with open(of) as f:
        for line in f:
            r = json.loads(line)
            if r.get("event") == "result":
                out.append(r)
    import shutil
    shutil.rmtree(tmp, ignore_errors=True)
    bad = 0
    for r in out:
        for v in r.get("violations") or []:
            bad += 1
            print("REPLAY-VIOLATION property=%s component=%s kind=%s trigger=%s detail=%s" % (
                prop, v.get("component"), v.get("kind"), v.get("trigger"), str(v.get("detail"))[:500]))
        if not r.get("violations"):
            print("REPLAY-OK property=%s case=%s status=%s" % (prop, r["id"], r.get("status")))
    return 1 if bad else 0
