"""C17 - annotation aggregation equals plain counting."""
import numpy as np

from vf import gen
from vf.core import stable_hash
from vf.monitors import fcontracts as fc
from vf.oracles import is_missing

PROPERTY = "C17"
TECHNIQUE = "icontract post-conditions on compute_vote_vectors / majority_vote / ext_confusion_matrix against a pure-Python counting reference model, over generated label matrices in all label encodings"
RULE = ("cases = label matrix (samples 1-9 x annotators 1-5 x classes 2-4, any missing pattern, encodings float/NaN, int/-1, "
        "object-number/None, object-string/None, str/'zz', str/'') x weights {None, non-negative matrix incl. zeros, NaN at random places, near-equal sums on large / tiny scales} "
        "x explicit / inferred classes x the four normalize modes x 1-D / 2-D y_pred; contracts compare: vote vectors with the "
        "nested-loop sum of w*[y==c]; majority vote = a class with maximal vote for labelled rows and the sentinel for rows "
        "without label; confusion matrices with plain loops (raw counts for normalize=None; counts / row, column, total sums "
        "wherever that sum is non-zero). Non-trivial = >= 2 annotators, >= 2 classes and (a tie between top classes or a missing entry); "
        "distinct by (encoding, n, annotators, classes, weights kind, normalize, seed).")
ASSUMPTIONS = ["normalised confusion entries whose normalising sum is zero are unspecified by the property (the code fills 1/K) and are not compared",
               "NaN weights count as weight 0 (documented behaviour of compute_vote_vectors: confidence scores may be missing)"]
REQUIRED_MONITORS = ["compute_vote_vectors", "majority_vote", "ext_confusion_matrix"]
ENC = {
    "nan": (np.nan, float, lambda k: float(k)),
    "int": (-1, int, lambda k: 10 * (k + 1)),
    "intf": (-1.0, int, lambda k: 10 * (k + 1)),        # integer labels, the sentinel written as a float
    "objnum": (None, object, lambda k: k + 1),
    "objstr": (None, object, lambda k: "abcd"[k]),
    "strzz": ("zz", "<U2", lambda k: "abcd"[k]),
    "strempty": ("", "<U2", lambda k: "abcd"[k]),
    # labels of different widths, arrays in their natural dtype: the annotators only used the one-character labels, the true
    # labels also hold the wider ones
    "strwide": ("?", None, lambda k: ["1", "2", "10", "11"][k]),
}
_ready = [False]


def _eq(a, b):
    if a is None or b is None:
        return a is None and b is None
    if isinstance(a, float) and a != a:
        return isinstance(b, float) and b != b
    return bool(a == b)


def _classes_of(y, ml, classes):
    if classes is not None:
        return sorted(list(np.asarray(classes).tolist()))
    y = np.asarray(y)
    m = is_missing(y, ml)
    return sorted(set(y[~m].ravel().tolist()))


def ref_votes(y, w, classes, ml):
    y = np.asarray(y)
    y2 = y if y.ndim == 2 else y.reshape(-1, 1)
    cl = _classes_of(y, ml, classes)
    m = is_missing(y2, ml)
    V = np.zeros((y2.shape[0], len(cl)))
    if w is not None:
        w = np.asarray(w, dtype=float)
        w = w if w.ndim == 2 else w.reshape(-1, 1)
    for i in range(y2.shape[0]):
        for a in range(y2.shape[1]):
            if m[i, a]:
                continue
            ww = 1.0 if w is None else w[i, a]
            if ww != ww:
                ww = 0.0
            V[i, cl.index(y2[i, a])] += ww
    return V, cl


def setup():
    if _ready[0]:
        return
    import skactiveml.utils._aggregation as A
    import skactiveml.utils._multi_annot as M
    import skactiveml.utils  # noqa
    import skactiveml.pool, skactiveml.classifier, skactiveml.pool.multiannotator  # noqa  (rebinding targets)

    def post_votes(a, result, old):
        y, w, classes, ml = old
        try:
            V, cl = ref_votes(y, w, classes, ml)
        except ValueError:
            return
        r = np.asarray(result, dtype=float)
        if r.shape != V.shape or not np.allclose(r, V, rtol=1e-12, atol=1e-12):
            fc.record("compute_vote_vectors", "not-the-weighted-count",
                      "y=%r w=%r classes=%r ml=%r -> %r, counting gives %r" % (np.asarray(y).tolist(), None if w is None else np.asarray(w).tolist(), classes, ml, r.tolist(), V.tolist()))

    def snap_votes(a):
        return (np.array(a["y"], copy=True), None if a.get("w") is None else np.array(a["w"], dtype=float, copy=True),
                a.get("classes"), a.get("missing_label", np.nan))

    def post_mv(a, result, old):
        y, w, classes, ml = old
        y2 = np.asarray(y)
        y2 = y2 if y2.ndim == 2 else y2.reshape(-1, 1)
        try:
            V, cl = ref_votes(y2, w, classes, ml)
        except ValueError:
            return
        m = is_missing(y2, ml)
        r = np.asarray(result)
        if r.shape != (y2.shape[0],):
            fc.record("majority_vote", "wrong-shape", "%s" % (r.shape,))
            return
        for i in range(y2.shape[0]):
            if m[i].all():
                if not _eq(r[i].item() if hasattr(r[i], "item") else r[i], ml):
                    fc.record("majority_vote", "unlabelled-sample-not-sentinel", "row %d of %r -> %r" % (i, y2.tolist(), r.tolist()))
                    return
            else:
                lab = r[i].item() if hasattr(r[i], "item") else r[i]
                if lab not in cl or V[i, cl.index(lab)] < V[i].max() - 1e-12:
                    fc.record("majority_vote", "not-a-maximal-vote", "row %d: votes %r over classes %r, returned %r (y=%r w=%r)" % (
                        i, V[i].tolist(), cl, lab, y2.tolist(), None if w is None else np.asarray(w).tolist()))
                    return

    def post_cm(a, result, old):
        y_true, y_pred = np.asarray(a["y_true"]), np.asarray(a["y_pred"])
        ml, classes, normalize = a.get("missing_label", np.nan), a.get("classes"), a.get("normalize")
        yp = y_pred if y_pred.ndim == 2 else y_pred.reshape(-1, 1)
        both = np.column_stack([y_true.reshape(-1, 1).astype(yp.dtype if yp.dtype == object else y_true.dtype), yp]) if False else None
        cl = sorted(list(np.asarray(classes).tolist())) if classes is not None else sorted(
            set(y_true.tolist()) | set(yp[~is_missing(yp, ml)].ravel().tolist()))
        K = len(cl)
        C = np.zeros((yp.shape[1], K, K))
        mp = is_missing(yp, ml)
        for an in range(yp.shape[1]):
            for i in range(len(y_true)):
                if not mp[i, an]:
                    C[an, cl.index(y_true[i]), cl.index(yp[i, an])] += 1
        r = np.asarray(result, dtype=float)
        if r.shape != C.shape:
            fc.record("ext_confusion_matrix", "wrong-shape", "%s vs %s" % (r.shape, C.shape))
            return
        if normalize is None:
            ok = np.array_equal(r, C)
        else:
            with np.errstate(all="ignore"):
                if normalize == "true":
                    s = C.sum(axis=2, keepdims=True)
                elif normalize == "pred":
                    s = C.sum(axis=1, keepdims=True)
                else:
                    s = C.sum(axis=(1, 2), keepdims=True)
                want = C / s
            defined = np.broadcast_to(s != 0, C.shape)
            ok = np.allclose(r[defined], want[defined], rtol=1e-12, atol=1e-12)
        if not ok:
            fc.record("ext_confusion_matrix", "not-the-counts(normalize=%s)" % normalize,
                      "y_true=%r y_pred=%r classes=%r -> %r, counting gives %r" % (y_true.tolist(), yp.tolist(), classes, r.tolist(), C.tolist()))

    fc.install(A, "compute_vote_vectors", post_votes, snapshot=snap_votes)
    fc.install(A, "majority_vote", post_mv, snapshot=snap_votes)
    fc.install(M, "ext_confusion_matrix", post_cm)
    _ready[0] = True


def gen_cases(tier, seed):
    n = {"quick": 1200, "thorough": 100000}[tier]
    encs = list(ENC)
    return [{"id": "c17-%05d" % i, "seed": stable_hash(seed, "C17", i), "enc": encs[i % len(encs)],
             "wkind": ["none", "pos", "zeros", "nan", "near"][(i // len(encs)) % 5],
             "normalize": [None, "true", "pred", "all"][(i // (4 * len(encs))) % 4],
             "explicit": bool(i % 2)} for i in range(n)]


def required_cells(tier):
    return ["enc=%s" % e for e in ENC] + ["normalize=%s" % n for n in (None, "true", "pred", "all")]


def run_case(desc):
    setup()
    import skactiveml.utils as U
    rng = gen.rng_for("c17", desc["seed"])
    ml, dt, lab = ENC[desc["enc"]]
    n, A, K = int(rng.randint(1, 10)), int(rng.randint(1, 6)), int(rng.randint(2, 5))
    classes = [lab(k) for k in range(K)]
    wide = dt is None
    Y = np.empty((n, A), dtype=object if wide else dt)
    M = rng.rand(n, A) < rng.choice([0.0, 0.3, 0.7])
    for i in range(n):
        for a in range(A):
            Y[i, a] = ml if M[i, a] else classes[rng.randint(min(K, 2) if wide else K)]
    if wide:
        Y = np.array(Y.tolist())
        dt = None
    W = None
    if desc["wkind"] != "none":
        W = np.round(rng.rand(n, A) * 4) / 2.0
        if desc["wkind"] == "zeros":
            W[rng.rand(n, A) < 0.4] = 0.0
        if desc["wkind"] == "nan":
            W[rng.rand(n, A) < 0.2] = np.nan
        if desc["wkind"] == "near":      # vote sums that differ only in the last digits, on large and on tiny scales
            scale = float(rng.choice([1.0, 12345.6, 1e-9]))
            W = scale * (1.0 + rng.choice([0.0, 1e-7, -1e-7, 3e-6, 2.0 ** -50], size=(n, A)))
            if scale == 1e-9:
                W = rng.choice([1e-9, 3e-9, 2e-9], size=(n, A))
    cls_arg = classes if (desc["explicit"] or M.all()) else None
    one_d = A == 1 and rng.rand() < 0.5
    viol = []
    fc.drain()
    try:
        Ya = Y[:, 0].copy() if one_d else Y.copy()
        Wa = None if W is None else (W[:, 0].copy() if one_d else W.copy())
        U.compute_vote_vectors(Ya, w=Wa, classes=cls_arg, missing_label=ml)
        U.majority_vote(Ya if not one_d else Ya.reshape(-1, 1), w=None if Wa is None else Wa.reshape(n, -1),
                        classes=cls_arg, missing_label=ml, random_state=int(desc["seed"] % 1000))
        y_true = np.array([classes[rng.randint(K)] for _ in range(n)], dtype=dt)
        if wide:
            y_true[rng.randint(n)] = classes[K - 1] if K > 2 else y_true[0]
        U.ext_confusion_matrix(y_true, Ya, classes=cls_arg, missing_label=ml, normalize=desc["normalize"])
        # the caller keeps using its arrays (e.g. the same weight matrix while the label matrix fills up)
        Y0 = Y[:, 0] if one_d else Y
        W0 = None if W is None else (W[:, 0] if one_d else W)
        if not all(_eq(u, v) for u, v in zip(np.asarray(Ya).ravel().tolist(), np.asarray(Y0).ravel().tolist())):
            viol.append({"component": "aggregation", "kind": "input-modified:y", "detail": "enc=%s" % desc["enc"]})
        if W0 is not None and not np.array_equal(Wa, W0, equal_nan=True):
            viol.append({"component": "aggregation", "kind": "input-modified:w", "detail": "w before %r after %r" % (np.asarray(W0).tolist(), np.asarray(Wa).tolist())})
    except Exception as ex:
        viol.append({"component": "aggregation", "kind": "exception:%s" % type(ex).__name__,
                     "detail": "enc=%s Y=%r W=%r classes=%r: %s" % (desc["enc"], Y.tolist(), None if W is None else W.tolist(), cls_arg, str(ex)[:150])})
    viol += fc.drain()
    for v in viol:
        v["trigger"] = "any"
    V, cl = ref_votes(Y, W, classes, ml)
    tie = bool(((V == V.max(axis=1, keepdims=True)).sum(axis=1) >= 2).any())
    nontrivial = A >= 2 and K >= 2 and (tie or M.any())
    return {"status": "ok", "violations": viol, "nontrivial": bool(nontrivial),
            "nt_key": "%s|n%d|a%d|k%d|%s|%s|%d" % (desc["enc"], n, A, K, desc["wkind"], desc["normalize"], desc["seed"] % 997),
            "cells": ["enc=%s" % desc["enc"], "normalize=%s" % desc["normalize"]], "monitors": fc.drain_evals(),
            "observed": {"enc": desc["enc"], "Y": Y.tolist() if Y.size <= 20 else str(Y.shape), "weights": desc["wkind"],
                         "normalize": desc["normalize"], "tie": tie}}
