"""C10 - stream update commits exactly what query simulated."""
import numpy as np

from vf import gen, streams, triggers
from vf.core import stable_hash
from vf.monitors import contracts, state as st, steps

PROPERTY = "C10"
TECHNIQUE = "recorded query/update histories of one stream under several chunkings, checked offline against the chunk-size-1 run as sequential reference model; result-shape contract on every query; update-acceptance monitor"
RULE = ("cases = (stream strategy x {default, compatible explicit budget manager}) and (budget manager alone) x budget x window x "
        "stream; every case replays the SAME stream under the chunkings {1-by-1, random 1-12, random 1-40, whole}; on every query "
        "the contract checks: indices are strictly increasing integers in range(len(candidates)), len(utilities) == len(candidates); "
        "update(candidates, queried_indices) must accept what query returned; for the objects with claimed chunking invariance "
        "(Fixed/Variable uncertainty, Split, Random, BIQF managers; StreamRandomSampling, PeriodicSampling, FixedUncertainty, "
        "VariableUncertainty, Split strategies) the concatenated decisions and the final state fingerprint (u_t_, theta_, counters, "
        "RandomState) must equal those of the 1-by-1 run. Utilities are exactly representable (dyadic rationals / exact stub "
        "classifier) so that summation order cannot differ. Non-trivial = some chunk of length >= 2 contains a grant and a refusal; "
        "distinct by (object, manager, budget, w, stream).")
ASSUMPTIONS = [
    "chunking invariance is only claimed for managers/strategies whose decisions do not consume normally distributed random numbers",
    "exact stub classifier (copies and comparisons only) instead of a kernel classifier, whose last utility bit may depend on the batch (harness artefact, DESIGN C10)",
]
REQUIRED_MONITORS = ["C10.result-shape-contract", "C10.update-acceptance", "C10.chunking-invariance-checker"]
INVARIANT_BMS = ["FixedUncertaintyBudgetManager", "VariableUncertaintyBudgetManager", "SplitBudgetManager",
                 "RandomBudgetManager", "BalancedIncrementalQuantileFilter"]
INVARIANT_STRATS = ["StreamRandomSampling", "PeriodicSampling", "FixedUncertainty", "VariableUncertainty", "Split"]
BUDGETS = [0.02, 0.1, 0.3, 0.5, 0.9]
WINDOWS = [1, 2, 5, 20, 100]
CHUNKINGS = ["one", "small", "large", "whole"]


def gen_cases(tier, seed):
    reps = {"quick": 3, "thorough": 50}[tier]
    n = {"quick": 120, "thorough": 700}[tier]
    cases = []
    for name in streams.STRAT_NAMES:
        for bm in streams.compatible_bms(name):
            for i in range(reps):
                cases.append({"family": "strategy", "name": name, "bm": bm, "i": i})
    for name in streams.BM_NAMES:
        for i in range(reps * 2):
            cases.append({"family": "bm", "name": name, "bm": None, "i": i})
    for k, c in enumerate(cases):
        s = stable_hash(seed, "C10", c["family"], c["name"], c["bm"], c["i"])
        c.update(seed=s, budget=BUDGETS[s % len(BUDGETS)], w=WINDOWS[(s >> 4) % len(WINDOWS)], n=n,
                 stream=["dyadic", "uncertain", "clustered"][(s >> 8) % 3] if c["family"] == "strategy" else
                 ["dyadic", "near_budget", "alternating", "ascending", "descending", "const1"][(s >> 8) % 6],
                 ffb=bool((s >> 12) % 2))
        c["id"] = "%s-%s-%s-%03d" % (c["family"], c["name"], c["bm"], k)
    return cases


def required_cells(tier):
    return ["strategy|%s" % n for n in streams.STRAT_NAMES] + ["bm|%s" % n for n in streams.BM_NAMES]


def _build(desc):
    seed = desc["seed"] % 100000
    if desc["family"] == "bm":
        return streams.make_bm(desc["name"], desc["budget"], desc["w"], seed, **streams.variant_kwargs(desc["name"], desc["seed"]))
    bm = streams.make_bm(desc["bm"], desc["budget"], desc["w"], seed + 1,
                         **streams.variant_kwargs(desc["bm"], desc["seed"] + 1)) if desc["bm"] else None
    extra = dict(streams.variant_kwargs(desc["name"], desc["seed"]))
    if desc["name"] == "StreamDensityBasedAL":
        extra["window_size"] = max(2, desc["w"])
    if desc["name"].startswith("Cognitive"):
        extra["cognition_window_size"] = 6
        extra["force_full_budget"] = desc["ffb"]
    return streams.make_strategy(desc["name"], None if bm is not None else desc["budget"], seed, bm=bm, **extra)


def run_case(desc):
    steps.install()
    rng = gen.rng_for("c10", desc["seed"])
    n, d = desc["n"], 2
    is_bm = desc["family"] == "bm"
    name = desc["name"]
    comp = name
    with_bm = "" if not desc["bm"] else " [budget_manager=%s]" % desc["bm"]
    if is_bm:
        U = streams.utility_stream(rng, desc["stream"], n, desc["budget"])
        U = np.round(U * 64) / 64.0
        X = np.zeros((n, d))
        clf = None
    else:
        X = streams.feature_stream(rng, n, d, desc["stream"])
        U = None
        clf = streams.pwc_clf(gen.rng_for("c10clf", desc["seed"]), d) if name in streams.NEEDS_FREQ else streams.stub_clf()
    invariant = (is_bm and name in INVARIANT_BMS) or (
        not is_bm and name in INVARIANT_STRATS and (desc["bm"] is None or desc["bm"] in INVARIANT_BMS)) or (
        # the density strategy simulates its manager candidate by candidate: with a claimed manager the pair is deterministic
        name == "StreamDensityBasedAL" and desc["bm"] in INVARIANT_BMS)
    viol = []
    stats = {"queries": 0, "updates": 0, "mixed_chunks": 0}

    def add(kind, detail, chunking):
        if not any(v["kind"] == kind for v in viol):
            v = {"component": comp, "kind": kind, "detail": detail + with_bm}
            v["trigger"] = triggers.classify("C10", v, dict(desc, chunking=chunking))
            viol.append(v)

    def run(chunking):
        obj = _build(desc)
        crng = gen.rng_for("c10chunks", desc["seed"], chunking)
        decisions = np.zeros(n, dtype=int)
        ok = True
        for a, b in streams.chunking(crng, n, {"small": "small", "large": "large"}.get(chunking, chunking)):
            cand = X[a:b]
            if not is_bm and (desc["seed"] >> 21) % 4 == 0:
                cand = cand.tolist()          # array-like means array-like: update must take what query took
            steps.begin()
            try:
                if is_bm:
                    idx = obj.query_by_utility(U[a:b])
                    util = U[a:b]
                else:
                    idx, util = streams.query_strategy(obj, cand, clf)
            except steps.StepBudgetExceeded as ex:
                add("step-budget-exceeded", str(ex), chunking)
                return None, None
            except Exception as ex:
                add("query-raises:%s" % type(ex).__name__, "chunk [%d,%d) (%s): %s" % (a, b, chunking, str(ex)[:150]), chunking)
                return None, None
            finally:
                steps.end()
            stats["queries"] += 1
            contracts.count("C10.result-shape-contract")
            arr = np.asarray(idx)
            lst = arr.ravel().tolist()
            if arr.ndim != 1 and len(lst) > 0:
                add("indices-not-1d", "shape %s" % (arr.shape,), chunking)
            if len(lst) and not all(isinstance(i, (int, np.integer)) or (isinstance(i, float) and i.is_integer()) for i in lst):
                add("indices-not-integer", "%r" % lst[:5], chunking)
            if len(lst) and not all(isinstance(i, (int, np.integer)) for i in lst):
                add("indices-not-integer", "element types %s" % sorted({type(i).__name__ for i in lst}), chunking)
            if any(not (0 <= i < b - a) for i in lst):
                add("index-out-of-range", "chunk len %d: %s" % (b - a, lst[:10]), chunking)
            if any(y <= x for x, y in zip(lst, lst[1:])):
                add("indices-not-strictly-increasing", "%s" % lst[:12], chunking)
            if not is_bm and len(np.asarray(util).ravel()) != b - a:
                add("utilities-wrong-length", "%d utilities for %d candidates" % (len(np.asarray(util).ravel()), b - a), chunking)
            good = [int(i) for i in lst if 0 <= i < b - a]
            decisions[a + np.array(good, dtype=int)] = 1
            if b - a >= 2 and 0 < len(good) < b - a:
                stats["mixed_chunks"] += 1
            contracts.count("C10.update-acceptance")
            try:
                if is_bm:
                    streams.update_bm(obj, cand, idx, util)
                else:
                    streams.update_strategy(obj, cand, idx, util)
                stats["updates"] += 1
            except Exception as ex:
                add("update-raises:%s" % type(ex).__name__,
                    "update(candidates[%d], queried_indices=%s) after query (%s chunking): %s" % (b - a, lst[:10], chunking, str(ex)[:120]),
                    chunking)
                ok = False
                break
        return (decisions, streams.state_fp(obj)) if ok else (None, None)

    ref_dec, ref_fp = run("one")
    for ch in CHUNKINGS[1:]:
        dec, f = run(ch)
        if invariant and ref_dec is not None and dec is not None:
            contracts.count("C10.chunking-invariance-checker")
            if not np.array_equal(dec, ref_dec):
                i = int(np.flatnonzero(dec != ref_dec)[0])
                add("decisions-depend-on-chunking", "first difference at instance %d: 1-by-1 grants %d, '%s' chunking grants %d "
                    "(totals %d vs %d)" % (i, ref_dec[i], ch, dec[i], ref_dec.sum(), dec.sum()), ch)
            elif f != ref_fp:
                add("final-state-depends-on-chunking", "paths %s" % [p[0] for p in st.diff(ref_fp, f)][:6], ch)
    if not invariant:
        contracts.count("C10.chunking-invariance-checker", 0)
    if is_bm:
        # ---- every manager: update commits given decisions instance by instance - one update call with a chunk of decisions
        # leaves the state of the same decisions committed one at a time (update itself draws no decision)
        try:
            m = int(rng.randint(2, 14))
            dec_c = rng.rand(m) < 0.35
            Uc = np.round(rng.rand(m) * 64) / 64.0
            Xc = np.zeros((m, d))
            a_, b_ = _build(desc), _build(desc)
            for o in (a_, b_):
                o.query_by_utility(np.array([]))
            streams.update_bm(a_, Xc, np.flatnonzero(dec_c), Uc)
            for i in range(m):
                streams.update_bm(b_, Xc[i:i + 1], np.array([0] if dec_c[i] else [], dtype=int), Uc[i:i + 1])
            contracts.count("C10.update-chunk-equals-update-one-by-one")
            fa, fb = streams.state_fp(a_), streams.state_fp(b_)
            if fa != fb:
                add("update-of-a-chunk-differs-from-updates-one-by-one", "decisions %s: paths %s" % (
                    dec_c.astype(int).tolist(), [(p_[0], str(p_[1])[:30], str(p_[2])[:30]) for p_ in st.diff(fa, fb)][:4]), "one")
        except Exception:
            contracts.count("C10.update-chunk-equals-update-one-by-one", 0)
    return {"status": "ok", "violations": viol, "nontrivial": stats["mixed_chunks"] > 0,
            "nt_key": "%s|%s|b%s|w%s|%s|ffb%d" % (name, desc["bm"], desc["budget"], desc["w"], desc["stream"], desc["ffb"]),
            "cells": ["%s|%s" % (desc["family"], name)], "monitors": contracts.drain_evals(), "counters": stats,
            "observed": {"n": n, "granted_1by1": None if ref_dec is None else int(ref_dec.sum()), "invariance_claimed": invariant,
                         "mixed_chunks": stats["mixed_chunks"]}}
