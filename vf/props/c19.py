"""C19 - index-based incremental refitting equals retraining from scratch."""
import numpy as np
from sklearn.base import clone
from sklearn.linear_model import SGDClassifier
from sklearn.naive_bayes import GaussianNB
from sklearn.tree import DecisionTreeClassifier

from skactiveml.classifier import MixtureModelClassifier, ParzenWindowClassifier, SklearnClassifier
from skactiveml.pool.utils import IndexClassifierWrapper
from sklearn.mixture import BayesianGaussianMixture

from vf import gen
from vf.core import stable_hash
from vf.monitors import contracts, steps

PROPERTY = "C19"
TECHNIQUE = "recorded operation history on IndexClassifierWrapper replayed offline against an executable multiset reference model (fresh clone trained on the implied (sample, label, weight) triples); native-partial_fit learners replayed by the same partial_fit call sequence; plus the real call pattern of the EER strategies with/without the kernel speed-up"
RULE = ("cases = wrapped classifier (PWC +/- n_neighbors / kernels, PWC with precomputed-kernel speed-up, SklearnClassifier x {GaussianNB, "
        "DecisionTree, SGD}, MixtureModelClassifier) x flags (ignore_partial_fit, enforce_unique_samples, use_speed_up) x weights {None, "
        "given} x random sequences of 2-10 operations (fit / partial_fit / partial_fit from the stored base model, label overrides, "
        "weight overrides, set_base_clf); after EVERY operation predict / predict_proba / predict_freq of the wrapper on all samples are "
        "compared (rtol 1e-7) with a fresh clone of the wrapped classifier trained on the multiset implied by the history. Learners with "
        "native partial_fit (ignore_partial_fit=False) are compared with a fresh copy driven by the same partial_fit call sequence. "
        "Family 'eer': MonteCarloEER / ValueOfInformationEER queries with a PWC are run twice - once normally, once with the "
        "IndexClassifierWrapper forced to use_speed_up=False - and must give identical utilities. Non-trivial = the sequence contains a "
        "restart from the base model after >= 1 partial fit, or a duplicate index with enforce_unique_samples=True; distinct by "
        "(classifier, flags, weights, operation sequence).")
ASSUMPTIONS = ["documented semantics of fit / partial_fit / use_base_clf / set_base_clf / enforce_unique_samples form the reference model (40 lines)",
               "the wrapper's constructor requires a numeric missing_label compatible with y (NaN / float labels used)"]
REQUIRED_MONITORS = ["C19.multiset-replay-checker", "C19.speed-up-equivalence"]
CL = [0, 1, 2]
KINDS = ["pwc", "pwc_knn", "pwc_speed", "pwc_speed_poly", "pwc_speed_knn", "pwc_speed_mean", "nb", "tree", "nb_pf", "sgd_pf", "mixture", "nb_extra_param", "knn"]


class ExtraParamNB(GaussianNB):
    """An estimator whose fit has a further parameter before the weights (like coef_init of the linear models): weights that are
    passed by position end up there."""

    def fit(self, X, y, prior_init=None, sample_weight=None):
        if prior_init is not None:
            raise ValueError("prior_init is not supported by this training set")
        return super().fit(X, y, sample_weight=sample_weight)


def _base(kind):
    if kind == "pwc":
        return ParzenWindowClassifier(classes=CL, metric_dict={"gamma": 0.5}, random_state=0)
    if kind == "pwc_knn":
        return ParzenWindowClassifier(classes=CL, n_neighbors=3, metric_dict={"gamma": 0.5}, random_state=0)
    if kind == "pwc_speed":
        return ParzenWindowClassifier(classes=CL, metric_dict={"gamma": 0.7}, class_prior=0.1, random_state=0)
    if kind == "pwc_speed_knn":     # neighbour limit + precomputed kernel: unlabelled training samples count as neighbours
        return ParzenWindowClassifier(classes=CL, n_neighbors=2, metric_dict={"gamma": 0.6}, random_state=0)
    if kind == "pwc_speed_mean":    # bandwidth resolved from the training data of every fit, speed-up requested
        return ParzenWindowClassifier(classes=CL, metric_dict={"gamma": "mean"}, random_state=0)
    if kind == "pwc_speed_poly":
        return ParzenWindowClassifier(classes=CL, metric="laplacian", metric_dict={"gamma": 0.3}, random_state=0)
    if kind in ("nb", "nb_pf"):
        return SklearnClassifier(GaussianNB(var_smoothing=1e-3), classes=CL, random_state=0)
    if kind == "tree":
        return SklearnClassifier(DecisionTreeClassifier(random_state=0), classes=CL, random_state=0)
    if kind == "knn":     # an estimator whose fit takes nothing but X and y
        from sklearn.neighbors import KNeighborsClassifier
        return SklearnClassifier(KNeighborsClassifier(n_neighbors=1), classes=CL, random_state=0)
    if kind == "nb_extra_param":
        return SklearnClassifier(ExtraParamNB(var_smoothing=1e-3), classes=CL, random_state=0)
    if kind == "sgd_pf":
        return SklearnClassifier(SGDClassifier(loss="log_loss", random_state=0, learning_rate="constant", eta0=0.1), classes=CL, random_state=0)
    return MixtureModelClassifier(mixture_model=BayesianGaussianMixture(n_components=2, reg_covar=1e-2, random_state=0),
                                  classes=CL, random_state=0)


def gen_cases(tier, seed):
    reps = {"quick": 22, "thorough": 1200}[tier]
    cases = []
    for kind in KINDS:
        for i in range(reps):
            s = stable_hash(seed, "C19", kind, i)
            cases.append({"id": "%s-%04d" % (kind, i), "family": "ops", "kind": kind, "seed": s, "eus": bool(i % 2),
                          "weights": bool((i // 2) % 2) and kind != "knn"})      # (nearest neighbours take no weights)
    for i in range({"quick": 24, "thorough": 800}[tier]):
        cases.append({"id": "eer-%04d" % i, "family": "eer", "kind": ["mc", "voi"][i % 2], "seed": stable_hash(seed, "C19", "eer", i),
                      "eus": False, "weights": bool((i // 2) % 2)})
    return cases


def required_cells(tier):
    return ["kind=%s" % k for k in KINDS] + ["eer=mc", "eer=voi"]


def _fit_ref(base, X, ms, with_w):
    idx = np.array([t[0] for t in ms], int)
    yy = np.array([t[1] for t in ms], float)
    if with_w:
        return clone(base).fit(X[idx], yy, sample_weight=np.array([t[2] for t in ms], float))
    return clone(base).fit(X[idx], yy)


def _outputs(m, Xq, is_wrapper, q):
    out = {"proba": np.asarray(m.predict_proba(q if is_wrapper else Xq), dtype=float)}
    if hasattr(m, "predict_freq") and (not is_wrapper or hasattr(m.clf, "predict_freq")):
        out["freq"] = np.asarray(m.predict_freq(q if is_wrapper else Xq), dtype=float)
    return out


def run_ops(desc):
    rng = gen.rng_for("c19", desc["seed"])
    kind, eus = desc["kind"], desc["eus"]
    n, d = int(rng.randint(5, 13)), 2
    X = np.round(rng.randn(n, d), 3)
    y = rng.randint(0, 3, n).astype(float)
    # every third case represents missing labels by a reserved number instead of NaN
    ml = -1.0 if (desc["seed"] >> 5) % 3 == 0 else np.nan
    y[rng.rand(n) < 0.4] = ml
    sw = np.round(rng.rand(n) + 0.1, 2) if desc["weights"] else None
    native_pf = kind.endswith("_pf")
    base = _base(kind)
    base.set_params(missing_label=ml)
    speed = kind.startswith("pwc_speed")
    sw_arg = sw.tolist() if (sw is not None and (desc["seed"] >> 8) % 3 == 0) else sw      # array-like means array-like
    w = IndexClassifierWrapper(clone(base), X, y, sw_arg, ignore_partial_fit=not native_pf, enforce_unique_samples=eus,
                               use_speed_up=speed, missing_label=ml)
    comp = "IndexClassifierWrapper(%s)" % type(base).__name__
    if speed:
        try:
            w.precompute(np.arange(n), np.arange(n))
        except Exception as ex:
            contracts.count("C19.multiset-replay-checker", 0)
            contracts.count("C19.speed-up-equivalence", 0)
            return {"status": "ok", "nontrivial": False, "cells": ["kind=%s" % kind], "monitors": contracts.drain_evals(),
                    "violations": [{"component": comp, "kind": "raises:%s" % type(ex).__name__, "trigger": "any",
                                    "detail": "precompute with use_speed_up=True (kind %s): %s" % (kind, str(ex)[:200])}],
                    "observed": {"kind": kind}}
    if speed and (desc["seed"] >> 11) % 2:
        # a prefitted classifier handed to the wrapper (no fit through the wrapper yet): with and without the speed-up the
        # wrapper answers like that classifier
        contracts.count("C19.prefitted-speed-up-equivalence")
        fitted = clone(base).fit(X, y)
        pre = IndexClassifierWrapper(fitted, X, y, use_speed_up=True, missing_label=ml)
        import warnings as _w
        with _w.catch_warnings():
            _w.simplefilter("ignore")
            try:
                pre.precompute(np.arange(n), np.arange(n))
                got = {"predict": np.asarray(pre.predict(np.arange(n))), "predict_freq": np.asarray(pre.predict_freq(np.arange(n))),
                       "predict_proba": np.asarray(pre.predict_proba(np.arange(n)))}
                want = {"predict": np.asarray(fitted.predict(X)), "predict_freq": np.asarray(fitted.predict_freq(X)),
                        "predict_proba": np.asarray(fitted.predict_proba(X))}
                for k_ in ("predict_freq", "predict_proba", "predict"):
                    ok_ = got[k_].shape == want[k_].shape and (np.allclose(got[k_], want[k_], rtol=1e-7, atol=1e-9) if k_ != "predict"
                                                               else True)
                    if not ok_:
                        return {"status": "ok", "nontrivial": True, "cells": ["kind=%s" % kind], "monitors": contracts.drain_evals(),
                                "nt_key": "prefit|%s|%d" % (kind, desc["seed"] % 9973),
                                "violations": [{"component": comp, "kind": "prefitted-wrapper-with-speed-up-differs:%s" % k_, "trigger": "any",
                                                "detail": "wrapper %r vs classifier %r" % (got[k_][:2].tolist(), want[k_][:2].tolist())}],
                                "observed": {"kind": kind}}
            except Exception as ex:
                return {"status": "ok", "nontrivial": True, "cells": ["kind=%s" % kind], "monitors": contracts.drain_evals(),
                        "nt_key": "prefit|%s|%d" % (kind, desc["seed"] % 9973),
                        "violations": [{"component": comp, "kind": "prefitted-wrapper-raises:%s" % type(ex).__name__, "trigger": "any",
                                        "detail": str(ex)[:200]}], "observed": {"kind": kind}}
    cur = basem = None          # multisets: lists of (idx, label, weight)
    ref_pf = ref_pf_base = None  # native partial_fit reference objects
    ops, viol = [], []
    q = np.arange(n)
    restart_after_pf = dup_unique = False
    n_pf = 0
    comp = "IndexClassifierWrapper(%s)" % type(base).__name__
    for step in range(int(rng.randint(2, 11))):
        choices = ["fit"] if cur is None else ["fit", "pfit", "pfit", "pfit_base"]
        op = choices[rng.randint(len(choices))]
        k = int(rng.randint(1, 4))
        if kind == "mixture":
            k = max(k, 2)      # a 2-component mixture needs >= 2 samples (third-party requirement)
        if eus or rng.rand() < 0.7:
            idx = rng.choice(n, size=min(k, n), replace=False)
        else:
            idx = rng.choice(n, size=k)
        override = rng.rand() < 0.5
        yy = rng.randint(0, 3, len(idx)).astype(float) if override else None
        if yy is not None and rng.rand() < 0.2:
            yy[rng.randint(len(yy))] = ml
        wo = np.round(rng.rand(len(idx)) + 0.5, 2) if (sw is not None and rng.rand() < 0.3) else None
        setb = bool(rng.rand() < 0.4)
        ys = yy if yy is not None else y[idx]
        ws = [None] * len(idx) if sw is None else (wo if wo is not None else sw[idx])
        new = list(zip(idx.tolist(), np.asarray(ys).tolist(), list(ws)))
        if op == "pfit_base" and basem is None and ref_pf_base is None:
            continue
        ops.append({"op": op, "idx": idx.tolist(), "y": None if yy is None else yy.tolist(),
                    "w": None if wo is None else wo.tolist(), "set_base": setb})
        try:
            steps.begin()
            yy_pass = None if yy is None else yy.copy()
            wo_pass = None if wo is None else wo.copy()
            if op == "fit":
                w.fit(idx, y=yy_pass, sample_weight=wo_pass, set_base_clf=setb)
                cur = new
                if native_pf:
                    ref_pf = _fit_ref(base, X, cur, sw is not None)
            else:
                ub = op == "pfit_base"
                w.partial_fit(idx, y=yy_pass, sample_weight=wo_pass, use_base_clf=ub, set_base_clf=setb)
                n_pf += 1
                if ub and n_pf > 1:
                    restart_after_pf = True
                start = list(basem) if ub else list(cur)
                if eus:
                    if any(t[0] in idx.tolist() for t in start):
                        dup_unique = True
                    start = [t for t in start if t[0] not in idx.tolist()]
                cur = start + new
                if native_pf:
                    from copy import deepcopy
                    ref_pf = deepcopy(ref_pf_base) if ub else ref_pf
                    yv = np.array([t[1] for t in new], float)
                    if sw is None:
                        ref_pf.partial_fit(X[idx], yv)
                    else:
                        ref_pf.partial_fit(X[idx], yv, sample_weight=np.array([t[2] for t in new], float))
            # the caller reuses its buffers: what was passed must have been copied
            if yy_pass is not None:
                yy_pass[:] = (yy_pass + 1) % 3
            if wo_pass is not None:
                wo_pass[:] = 7.0
            if setb:
                basem = list(cur)
                if native_pf:
                    from copy import deepcopy
                    ref_pf_base = deepcopy(ref_pf)
            ref = ref_pf if native_pf else _fit_ref(base, X, cur, sw is not None)
            got = _outputs(w, None, True, q)
            exp = _outputs(ref, X, False, q)
            contracts.count("C19.multiset-replay-checker")
            for key in exp:
                if key in got and not np.allclose(got[key], exp[key], rtol=1e-7, atol=1e-9, equal_nan=True):
                    i = int(np.argmax(np.abs(got[key] - exp[key]).max(axis=1)))
                    viol.append({"component": comp, "kind": "differs-from-retraining:%s" % key, "trigger": "any",
                                 "detail": "flags eus=%s speed_up=%s native_partial_fit=%s weights=%s; after ops %s: sample %d wrapper %r "
                                           "vs fresh clone on the implied multiset %r" % (eus, speed, native_pf, sw is not None, ops, i,
                                                                                         got[key][i].tolist(), exp[key][i].tolist())})
                    break
            if not np.array_equal(np.asarray(w.predict(q)), np.asarray(ref.predict(X))) and not viol:
                # predictions may differ only through random tie-breaking; compare where the optimum is unique
                P = exp["proba"]
                srt = np.sort(P, axis=1)
                uniq = srt[:, -1] - srt[:, -2] > 1e-9
                if not np.array_equal(np.asarray(w.predict(q))[uniq], np.asarray(ref.predict(X))[uniq]):
                    viol.append({"component": comp, "kind": "differs-from-retraining:predict", "trigger": "any", "detail": "ops %s" % ops})
            if viol:
                break
        except steps.StepBudgetExceeded as ex:
            viol.append({"component": comp, "kind": "step-budget-exceeded", "trigger": "any", "detail": str(ex)})
            break
        except Exception as ex:
            viol.append({"component": comp, "kind": "raises:%s" % type(ex).__name__, "trigger": "any",
                         "detail": "flags eus=%s speed_up=%s native_pf=%s; ops %s: %s" % (eus, speed, native_pf, ops, str(ex)[:200])})
            break
        finally:
            steps.end()
    contracts.count("C19.speed-up-equivalence", 0)
    return {"status": "ok", "violations": viol, "nontrivial": bool(restart_after_pf or dup_unique),
            "nt_key": "%s|eus%d|w%d|%s" % (kind, eus, desc["weights"], [(o["op"], tuple(o["idx"])) for o in ops]),
            "cells": ["kind=%s" % kind], "monitors": contracts.drain_evals(), "counters": {"operations": len(ops)},
            "observed": {"kind": kind, "enforce_unique": eus, "weights": desc["weights"], "n": n, "missing_label": repr(ml), "ops": ops[:10]}}


def run_eer(desc):
    """Real call pattern of the EER strategies: same query with and without the precomputed-kernel speed-up."""
    import skactiveml.pool._expected_error_reduction as E
    from skactiveml.pool import MonteCarloEER, ValueOfInformationEER
    rng = gen.rng_for("c19eer", desc["seed"])
    n, d = int(rng.randint(5, 12)), 2
    X = np.round(rng.randn(n, d), 3)
    y = rng.randint(0, 3, n).astype(float)
    y[rng.rand(n) < 0.5] = np.nan
    if not np.isnan(y).any():
        y[0] = np.nan
    sw = np.round(rng.rand(n) + 0.1, 2) if desc["weights"] else None
    clf = ParzenWindowClassifier(classes=CL, metric_dict={"gamma": float(rng.choice([0.3, 1.0]))}, class_prior=float(rng.choice([0, 0.5])),
                                 random_state=0)
    seed = int(desc["seed"] % 1000)
    if desc["kind"] == "mc":
        mk = lambda: MonteCarloEER(method=["misclassification_loss", "log_loss"][seed % 2], random_state=seed)
    else:
        mk = lambda: ValueOfInformationEER(consider_unlabeled=bool(seed % 2), subtract_current=bool((seed // 2) % 2), random_state=seed)
    kw = dict(X=X, y=y, clf=clf, batch_size=1, return_utilities=True)
    if sw is not None:
        kw["sample_weight"] = sw
    viol = []
    try:
        steps.begin()
        _, U1 = mk().query(**kw)
        seen = {"speed": 0}
        orig = E.IndexClassifierWrapper

        class NoSpeed(orig):
            def __init__(self, *a, **k):
                if k.get("use_speed_up"):
                    seen["speed"] += 1
                k["use_speed_up"] = False
                super().__init__(*a, **k)
        E.IndexClassifierWrapper = NoSpeed
        try:
            _, U2 = mk().query(**kw)
        finally:
            E.IndexClassifierWrapper = orig
        contracts.count("C19.speed-up-equivalence", seen["speed"])
        if not np.allclose(U1, U2, rtol=1e-7, atol=1e-10, equal_nan=True):
            i = int(np.nanargmax(np.abs(U1 - U2)))
            viol.append({"component": "IndexClassifierWrapper(speed-up)/" + desc["kind"], "kind": "speed-up-changes-utilities", "trigger": "any",
                         "detail": "utility %d: %r with speed-up vs %r without" % (i, U1.ravel()[i], U2.ravel()[i])})
    except steps.StepBudgetExceeded as ex:
        viol.append({"component": "EER", "kind": "step-budget-exceeded", "trigger": "any", "detail": str(ex)})
    finally:
        steps.end()
    contracts.count("C19.multiset-replay-checker", 0)
    return {"status": "ok", "violations": viol, "nontrivial": True,
            "nt_key": "eer|%s|w%d|%d" % (desc["kind"], desc["weights"], desc["seed"] % 9973), "cells": ["eer=%s" % desc["kind"]],
            "monitors": contracts.drain_evals(), "observed": {"strategy": desc["kind"], "n": n, "unlabelled": int(np.isnan(y).sum())}}


def run_case(desc):
    steps.install()
    return run_eer(desc) if desc["family"] == "eer" else run_ops(desc)
