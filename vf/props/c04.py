"""C04 - budget managers never spend more labels than the budget allows."""
import numpy as np

from vf import gen, streams, triggers
from vf.core import stable_hash
from vf.monitors import contracts, steps

PROPERTY = "C04"
TECHNIQUE = "offline conservation checker over the recorded history of committed grants (cumulative count vs. bound at every prefix) + hook invariant on u_t_ after every update"
RULE = ("cases = budget-enforcing manager (alone, fed adversarial utility streams) or stream strategy (with a maximally uncertain / "
        "dyadic stub classifier) x budget {0.01..1.0} x window {1,2,5,20,100,1000} x chunking {1-by-1, random 1-15, random 1-40, whole}; "
        "the history of (query result -> update) is recorded at the client boundary and the cumulative number of granted labels is "
        "compared with the bound at EVERY prefix n: b*n + n/w + b*w + 1 (Zliobaite-style managers and the strategies built on them), "
        "b*n + 1 (DensityBasedSplitBudgetManager / StreamDensityBasedAL), b*n (PeriodicSampling, StreamRandomSampling("
        "allow_exceeding_budget=False)); hook: u_t_ <= budget_*w + 1 after every update of a Zliobaite manager; shadow accounting "
        "model: the manager's running estimate (u_t_, or u_/t_, or observed_/queried_samples_) after every update must equal the "
        "sequential recurrence u <- u*(w-1)/w + granted computed by the monitor over the committed decisions. Non-trivial = "
        "granting every instance would exceed the bound at some prefix and at least one request was refused; distinct by "
        "(object, budget, w, chunking, stream kind).")
ASSUMPTIONS = [
    "input validation may reject infinite utilities (ValueError): such a stream is skipped, not judged",
    "float slack of 1e-9 on the bound",
]
REQUIRED_MONITORS = ["C04.prefix-bound-checker", "C04.u_t-hook", "C04.accounting-shadow-model"]
BUDGETS = [0.01, 0.05, 0.1, 0.3, 0.5, 0.9, 1.0]
WINDOWS = [1, 2, 5, 20, 100, 1000]
ZL_STRATS = {"FixedUncertainty": "FixedUncertaintyBudgetManager", "VariableUncertainty": "VariableUncertaintyBudgetManager",
             "RandomVariableUncertainty": "RandomVariableUncertaintyBudgetManager", "Split": "SplitBudgetManager",
             "CognitiveDualQueryStrategyRan": "RandomBudgetManager", "CognitiveDualQueryStrategyFixUn": "FixedUncertaintyBudgetManager",
             "CognitiveDualQueryStrategyVarUn": "VariableUncertaintyBudgetManager",
             "CognitiveDualQueryStrategyRanVarUn": "RandomVariableUncertaintyBudgetManager"}
OBJECTS = ([("bm", n) for n in streams.ZLIOBAITE_BMS] + [("bm", "DensityBasedSplitBudgetManager")] +
           [("strategy", n) for n in ZL_STRATS] + [("strategy", "StreamDensityBasedAL"), ("strategy", "PeriodicSampling"),
                                                   ("strategy", "StreamRandomSampling")])


def gen_cases(tier, seed):
    reps = {"quick": 16, "thorough": 160}[tier]
    n = {"quick": 300, "thorough": 4000}[tier]
    cases = []
    for fam, name in OBJECTS:
        for i in range(reps):
            s = stable_hash(seed, "C04", fam, name, i)
            cases.append({"family": fam, "name": name, "seed": s, "budget": BUDGETS[(s + i) % len(BUDGETS)],
                          "w": WINDOWS[(s >> 5) % len(WINDOWS)], "chunking": ["one", "small", "large", "whole"][(s >> 9) % 4],
                          "stream": streams.UTIL_STREAMS[(s >> 12) % len(streams.UTIL_STREAMS)] if fam == "bm" else
                          ["uncertain", "dyadic", "clustered"][(s >> 12) % 3],
                          "n": n if fam == "bm" or not name.startswith("Cognitive") else min(n, 600)})
    for k, c in enumerate(cases):
        c["id"] = "%s-%s-%03d" % (c["family"], c["name"], k)
    return cases


def required_cells(tier):
    return ["%s|%s" % o for o in OBJECTS]


def bound(kind, b, w, n):
    if kind == "zl":
        return b * n + n / w + b * w + 1
    if kind == "dbs":
        return b * n + 1
    return b * n


def run_case(desc):
    steps.install()
    rng = gen.rng_for("c04", desc["seed"])
    n, b, w = desc["n"], desc["budget"], desc["w"]
    name = desc["name"]
    is_bm = desc["family"] == "bm"
    d = 2
    if is_bm:
        obj = streams.make_bm(name, b, w, desc["seed"] % 1000, **streams.variant_kwargs(name, desc["seed"]))
        U = streams.utility_stream(rng, desc["stream"], n, b)
        X = np.zeros((n, d))
        kind = "dbs" if name == "DensityBasedSplitBudgetManager" else "zl"
        clf = None
    else:
        extra = {}
        if name == "StreamRandomSampling":
            extra["allow_exceeding_budget"] = False
        if name.startswith("Cognitive"):
            extra["force_full_budget"] = True      # update() of the cognitive strategies with force_full_budget=False: see C10
            extra["cognition_window_size"] = 5
        if name in ZL_STRATS:
            bm = streams.make_bm(ZL_STRATS[name], b, w, desc["seed"] % 1000, **streams.variant_kwargs(ZL_STRATS[name], desc["seed"]))
            try:
                obj = streams.make_strategy(name, None, desc["seed"] % 1000, bm=bm, **extra)
                if "budget_manager" not in obj.get_params():
                    obj = streams.make_strategy(name, b, desc["seed"] % 1000, **extra)
                    w = 100  # default window of the built-in manager
            except TypeError:
                obj = streams.make_strategy(name, b, desc["seed"] % 1000, **extra)
                w = 100
            kind = "zl"
        elif name == "StreamDensityBasedAL":
            obj = streams.make_strategy(name, b, desc["seed"] % 1000, window_size=10)
            kind = "dbs"
        else:
            obj = streams.make_strategy(name, b, desc["seed"] % 1000, **extra)
            kind = "hard"
        X = streams.feature_stream(rng, n, d, desc["stream"])
        if (desc["seed"] >> 15) % 4 == 0:
            X = X.astype(np.float32)          # single-precision instances are legal input
        U = None
        clf = streams.stub_clf()
    chunks = streams.chunking(rng, n, desc["chunking"])
    # budget managers only, every third case: the budget is LOWERED through set_params at a chunk boundary near the middle;
    # from there on the bound must hold with the new budget (counting from the switch), the first part is judged with the old one
    switch_at, b2 = None, None
    w_before = [None]
    if is_bm and (desc["seed"] >> 19) % 3 == 0 and len(chunks) >= 2:
        switch_at = chunks[len(chunks) // 2][0]
        b2 = max(0.01, round(b * float(rng.choice([0.1, 0.25, 0.5])), 4))
        # ... and / or the window of the estimate is changed as well (a longer window decays more slowly from then on)
        sw_variant = (desc["seed"] >> 21) % 3
        if sw_variant == 2 and "w" in obj.get_params():
            b2 = b
    granted = np.zeros(n, dtype=int)
    viol = []
    comp = name
    refused = 0
    max_ut = 0.0
    shadow = {"n": 0, "q": 0, "u_t": 0.0}
    viol_kinds = {}
    # warm start, every fourth case without a switch: labels acquired before the stream are registered through update; they
    # count against the budget, so the grants of the stream still obey the bound (the shadow model starts from them)
    warm = switch_at is None and (desc["seed"] >> 25) % 4 == 0
    if warm:
        k0 = int(rng.randint(1, 7))
        X0 = np.round(gen.rng_for("c04warm", desc["seed"]).rand(k0, d), 3).astype(X.dtype)
        try:
            if is_bm:
                streams.update_bm(obj, X0, np.arange(k0), np.ones(k0))
            else:
                streams.update_strategy(obj, X0, np.arange(k0), np.ones(k0))
        except Exception as ex:
            return {"status": "skip", "skip_reason": "update before the first query raised %s (judged by C10)" % type(ex).__name__}
        contracts.count("C04.warm-start")
        acct0 = obj if is_bm else getattr(obj, "budget_manager_", obj)
        for _ in range(k0):
            shadow["n"] += 1
            shadow["q"] += 1
            if hasattr(acct0, "w"):
                shadow["u_t"] = shadow["u_t"] * ((acct0.w - 1) / acct0.w) + 1
    for a, c_end in chunks:
        cand = X[a:c_end]
        if switch_at is not None and a == switch_at:
            obj.set_params(budget=b2)
            contracts.count("C04.budget-lowered-by-set_params")
            w_before[0] = obj.get_params().get("w")
            if sw_variant >= 1 and "w" in obj.get_params():
                obj.set_params(w=int(obj.get_params()["w"] * [2, 10][(desc["seed"] >> 23) % 2]))
                contracts.count("C04.window-changed-by-set_params")
        try:
            steps.begin()
            if is_bm:
                idx = obj.query_by_utility(U[a:c_end])
                util = U[a:c_end]
            else:
                idx, util = streams.query_strategy(obj, cand, clf)
        except ValueError as ex:
            if is_bm and not np.isfinite(U[a:c_end][~np.isnan(U[a:c_end])]).all():
                return {"status": "skip", "skip_reason": "infinite utilities rejected by validation"}
            return {"status": "skip", "skip_reason": "query raised %s (judged by C10)" % type(ex).__name__}
        finally:
            steps.end()
        idx = np.asarray(idx, dtype=int).ravel()
        try:
            if is_bm:
                streams.update_bm(obj, cand, idx, util)
            else:
                streams.update_strategy(obj, cand, idx, util)
        except Exception as ex:
            return {"status": "skip", "skip_reason": "update raised %s (judged by C10)" % type(ex).__name__}
        granted[a + idx[(idx >= 0) & (idx < c_end - a)]] += 1
        refused += (c_end - a) - len(idx)
        # ---- shadow accounting model over the committed decisions of this chunk
        acct = obj if is_bm else getattr(obj, "budget_manager_", obj)
        for j in range(a, c_end):
            shadow["n"] += 1
            shadow["q"] += int(granted[j])
            if hasattr(acct, "w"):
                shadow["u_t"] = shadow["u_t"] * ((acct.w - 1) / acct.w) + granted[j]
        contracts.count("C04.accounting-shadow-model")
        if hasattr(acct, "u_t_") and not viol_kinds.get("acct"):
            if abs(float(acct.u_t_) - shadow["u_t"]) > 1e-9 * max(1.0, abs(shadow["u_t"])):
                viol_kinds["acct"] = True
                viol.append({"component": comp, "kind": "accounting-differs-from-sequential-model", "trigger": "any",
                             "detail": "after instance %d (chunk of %d, w=%s): u_t_=%.6f but the recurrence over the committed grants gives %.6f"
                                       % (c_end, c_end - a, acct.w, float(acct.u_t_), shadow["u_t"])})
        for name_, key in (("u_", "q"), ("t_", "n"), ("queried_samples_", "q"), ("observed_samples_", "n")):
            holder = acct if hasattr(acct, name_) else (obj if hasattr(obj, name_) else None)
            if holder is not None and not viol_kinds.get(name_) and float(getattr(holder, name_)) != float(shadow[key]):
                viol_kinds[name_] = True
                viol.append({"component": comp, "kind": "accounting-differs-from-sequential-model", "trigger": "any",
                             "detail": "after instance %d: %s=%s but the history has %s=%d" % (c_end, name_, getattr(holder, name_), key, shadow[key])})
        # hook invariant on the manager's running estimate
        bm = obj if is_bm else getattr(obj, "budget_manager_", None)
        if kind == "zl" and bm is not None and hasattr(bm, "u_t_"):
            contracts.count("C04.u_t-hook")
            ut = float(bm.u_t_)
            max_ut = max(max_ut, ut)
            wv = getattr(bm, "w", w)
            # (after the budget was lowered the estimate may still sit above the new guard and only decays)
            if ut > bm.budget_ * wv + 1 + 1e-9 and not viol and not (switch_at is not None and a >= switch_at) and not warm:
                # (labels registered by a warm start may put the estimate above the guard as well: it only decays then)
                viol.append({"component": comp, "kind": "u_t-above-guard", "trigger": "any",
                             "detail": "after instance %d: u_t_=%.4f > budget*w+1=%.4f" % (c_end, ut, bm.budget_ * wv + 1)})
        elif kind != "zl":
            contracts.count("C04.u_t-hook")   # not applicable for this manager: counted as evaluated-vacuously
    cum = np.cumsum(granted)
    # (the shadow model was compared after every update inside the loop)
    ns = np.arange(1, n + 1)
    bm = obj if is_bm else getattr(obj, "budget_manager_", None)
    w_eff = getattr(bm, "w", w) if bm is not None else w
    b_eff = getattr(bm, "budget_", b) if bm is not None else getattr(obj, "budget_", b)
    limit = bound(kind, b_eff, w_eff, ns)
    if switch_at is not None:
        m = switch_at
        limit = bound(kind, b, w_before[0] or w_eff, ns)      # first part: the budget and window the manager was built with
        q0 = cum[m - 1] if m > 0 else 0
        tail = cum[m:] - q0
        lim2 = bound(kind, b2, w_eff, np.arange(1, n - m + 1))
        if kind != "zl":
            # managers that account the WHOLE stream (labels / instances since the start): budget left unspent before the
            # switch may still be spent afterwards, and labels spent above the new budget only stop further grants - the
            # bound after the switch is the one of the whole prefix under the new budget (or what had been granted already)
            lim2 = np.maximum(q0, bound(kind, b2, w_eff, m + np.arange(1, n - m + 1))) - q0
        over2 = np.flatnonzero(tail > lim2 + 1e-9)
        if len(over2):
            i = int(over2[0])
            viol.append({"component": comp, "kind": "budget-exceeded-after-lowering-it-by-set_params", "trigger": "any",
                         "detail": "budget %s -> %s at instance %d: %d labels granted among the next %d instances > bound %.3f (w=%s, chunking=%s, stream=%s)" % (
                             b, b2, m, tail[i], i + 1, lim2[i], w_eff, desc["chunking"], desc["stream"])})
        cum_chk, limit_chk = cum[:m], limit[:m]
    else:
        cum_chk, limit_chk = cum, limit
    contracts.count("C04.prefix-bound-checker", n)
    over = np.flatnonzero(cum_chk > limit_chk + 1e-9)
    if len(over):
        i = int(over[0])
        viol.append({"component": comp, "kind": "budget-exceeded", "trigger": "any",
                     "detail": "prefix n=%d: %d labels granted > bound %.3f (budget=%s, w=%s, chunking=%s, stream=%s)" % (
                         i + 1, cum[i], limit[i], b_eff, w_eff, desc["chunking"], desc["stream"])})
    for v in viol:
        v["trigger"] = triggers.classify("C04", v, desc)
    would_exceed = bool((ns > limit).any())
    nontrivial = would_exceed and refused > 0
    return {"status": "ok", "violations": viol, "nontrivial": bool(nontrivial),
            "nt_key": "%s|b%s|w%s|%s|%s|%s" % (name, b, w, desc["chunking"], desc["stream"], b2),
            "cells": ["%s|%s" % (desc["family"], name)], "monitors": contracts.drain_evals(),
            "counters": {"instances": n, "granted": int(cum[-1]), "refused": int(refused)},
            "maxima": {"max_u_t": max_ut},
            "observed": {"n": n, "granted": int(cum[-1]), "bound_at_n": float(limit[-1]), "refused": int(refused),
                         "slack_min": float((limit - cum).min()), "chunks": len(chunks)}}
