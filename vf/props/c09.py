"""C09 - results do not depend on how labels and missing labels are encoded."""
import numpy as np

from vf import gen, models, poolcase, streams
from vf.core import stable_hash
from vf.monitors import contracts, steps
from vf.props import _pool_batch as pb
from vf.registry import POOL, missing_from_registry, CLF_MODELS
from vf import registry as R, triggers

import skactiveml.stream as S
from skactiveml.classifier import ParzenWindowClassifier

PROPERTY = "C09"
TECHNIQUE = "relational oracle over paired executions of the same case under six (missing_label, label dtype, class renaming) encodings, with missing_label / classes set consistently on strategy and models"
RULE = ("cases = pool strategy (every classification entry incl. subtract_current / X_eval / feature-row variants; regression entries with NaN "
        "vs a reserved number) | stream strategy (through its classifier) | classifier (fit / predict_proba / predict / predict_freq; "
        "multi-annotator classifiers with explicit classes) x data x label regime; every case is executed under the reference encoding "
        "(NaN, float 0/1/2) and under (-1, int 10/20/30), (None, object numbers), (None, object strings), ('', str), ('zz', str), ('nan', "
        "natural str dtype, class names of different lengths); also SingleAnnotatorWrapper(strategy) and IntervalEstimationThreshold on "
        "label matrices; classifiers through fit and partial_fit, with given and with inferred classes: selected "
        "indices must be identical, utilities / probabilities allclose (rtol 1e-9), predictions the re-encoded originals. Non-trivial = "
        ">= 2 classes observed and >= 1 missing label; distinct by (family, object, encoding, data, labels, n, seed).")
ASSUMPTIONS = ["class renamings are strictly increasing (the sorted class order is preserved)",
               "label arrays are built with a dtype wide enough not to truncate the sentinel"]
REQUIRED_MONITORS = ["C09.encoding-pair-oracle"]
ENCODINGS = {
    "int": (-1, int, [10, 20, 30]),
    "objnum": (None, object, [1, 2, 3]),
    "objstr": (None, object, ["a", "b", "c"]),
    "strempty": ("", "<U2", ["a", "b", "c"]),
    "strzz": ("zz", "<U2", ["a", "b", "c"]),
    # class names of different lengths; the array has the dtype numpy gives the listed values (an unobserved class may be
    # longer than every string in y)
    "strlong": ("nan", None, ["a", "b", "new york"]),
    # a float array whose sentinel is a Python int, and a single-precision array with NaN
    "fint": (-1, float, [10.0, 20.0, 30.0]),
    "f32nan": (np.nan, np.float32, [1.0, 2.0, 3.0]),
}
REG_SENTINELS = {"num": -999.0}


def encode(y_id, enc):
    """y_id: int array with -1 for missing."""
    ml, dt, classes = ENCODINGS[enc]
    if y_id.size and (y_id >= 0).all():
        # no missing entry: the array gets its natural (possibly narrower) dtype, as a user would build it from labels only
        out = np.array([classes[i] for i in y_id.reshape(-1)]).reshape(y_id.shape)
        return out, ml, classes
    if dt is None:
        return np.array([ml if i < 0 else classes[i] for i in y_id.reshape(-1)]).reshape(y_id.shape), ml, classes
    out = np.empty(y_id.shape, dtype=dt)
    flat, src = out.reshape(-1), y_id.reshape(-1)
    for i in range(flat.size):
        flat[i] = ml if src[i] < 0 else classes[src[i]]
    return out, ml, classes


def gen_cases(tier, seed):
    reps = {"quick": 12, "thorough": 200}[tier]
    cases = []
    encs = list(ENCODINGS)
    for name, e in POOL.items():
        for i in range(max(2, reps // e.slow)):
            cases.append({"family": "pool", "entry": name, "seed": stable_hash(seed, "C09", name, i), "enc": encs[(i + stable_hash(seed, name)) % len(encs)],
                          "nmax": 12 if tier == "quick" else 20, "labels": ["half", "random", "unobserved", "one", "full"][i % 5],
                          "wrap": ["none", "none", "sub_excl", "sub"][(i + stable_hash(seed, name, "w")) % 4],
                          "variant": ["plain", "feat", "x_eval"][(i + stable_hash(seed, name, "v")) % 3]})
    # fully labelled y (natural, possibly narrower dtype) with feature-row candidates, once per encoding
    for name, e in POOL.items():
        if e.feat and e.kind in ("clf", "both"):
            for j, en in enumerate(encs):
                cases.append({"family": "pool", "entry": name, "seed": stable_hash(seed, "C09", "full", name, j), "enc": en,
                              "nmax": 10 if tier == "quick" else 16, "labels": "full", "variant": "feat", "wrap": "none", "kind_forced": "clf"})
    for name in streams.STRAT_NAMES:
        for i in range(max(1, reps // 2)):
            cases.append({"family": "stream", "name": name, "seed": stable_hash(seed, "C09", "s", name, i),
                          "enc": encs[(i + stable_hash(seed, name)) % len(encs)]})
    for name in models.CLASSIFIERS:
        for i in range(reps):
            cases.append({"family": "clf", "name": name, "seed": stable_hash(seed, "C09", "c", name, i),
                          "enc": encs[(i + stable_hash(seed, name)) % len(encs)],
                          "explicit_member_classes": bool(i % 2),
                          "path": ["fit", "partial_fit"][(i // 2 + stable_hash(seed, name, "p")) % 2],
                          "classes_none": bool((i // 4 + stable_hash(seed, name, "n")) % 2)})
    # multi-annotator strategies: the wrapper around classification strategies, and IntervalEstimationThreshold
    inner = [n for n, e in POOL.items() if e.kind in ("clf", "both") and not e.is_wrapper and e.arbitrary_index_ok and e.x_transform is None]
    for name in inner:
        for i in range(max(2, reps // (3 * POOL[name].slow))):
            cases.append({"family": "multi", "name": "saw", "entry": name, "seed": stable_hash(seed, "C09", "m", name, i),
                          "enc": encs[(i + stable_hash(seed, name, "m")) % len(encs)], "nmax": 9 if tier == "quick" else 14})
    for i in range(reps * 2):
        cases.append({"family": "multi", "name": "iet", "entry": "IntervalEstimationThreshold", "seed": stable_hash(seed, "C09", "iet", i),
                      "enc": encs[(i + stable_hash(seed, "iet")) % len(encs)], "nmax": 9 if tier == "quick" else 14})
    for k, c in enumerate(cases):
        c["id"] = "%s-%s-%s-%04d" % (c["family"], c.get("entry") or c.get("name"), c["enc"], k)
    return cases


def required_cells(tier):
    return ["pool|%s" % n for n in POOL] + ["stream|%s" % n for n in streams.STRAT_NAMES] + ["clf|%s" % n for n in models.CLASSIFIERS] + \
        ["enc=%s" % e for e in ENCODINGS] + ["multi|saw", "multi|iet"]


def _same_out(a, b):
    ia, ua = a
    ib, ub = b
    if not np.array_equal(np.asarray(ia), np.asarray(ib)):
        return "selected indices %s vs %s" % (np.asarray(ia).tolist(), np.asarray(ib).tolist())
    ua, ub = np.asarray(ua, float), np.asarray(ub, float)
    if ua.shape != ub.shape or not np.allclose(ua, ub, rtol=1e-9, atol=1e-12, equal_nan=True):
        if ua.shape == ub.shape:
            d = np.abs(ua - ub)
            d[np.isnan(ua) != np.isnan(ub)] = np.inf
            d[np.isnan(d)] = 0
            i = np.unravel_index(int(np.argmax(d)), d.shape)
            return "utilities differ at %s: %r vs %r" % (tuple(int(x) for x in i), ua[i], ub[i])
        return "utilities shapes %s vs %s" % (ua.shape, ub.shape)
    return None


def run_pool(desc):
    pb.setup()
    miss = missing_from_registry()
    if miss:
        return {"status": "inconclusive", "reason": "exported strategies not in registry: %s" % miss}
    variant = desc["variant"]
    cdesc = dict(desc, cmode="feat" if (variant == "feat" or desc.get("labels") == "full") and POOL[desc["entry"]].feat else None, batch=None)
    if cdesc["cmode"] != "feat" and cdesc.get("labels") == "full":
        cdesc["labels"] = "half"
    accept = (lambda cc: None if cc.kind == "clf" else "classification case wanted") if desc.get("kind_forced") == "clf" else None
    c, why = poolcase.build_in_domain(cdesc, accept)
    if why:
        return {"status": "skip", "skip_reason": why}
    e = c.entry
    comp = e.cls.__name__       # with wrap != none the strategy runs inside a SubSamplingWrapper (named in the detail text)
    rng = gen.rng_for("c09p", desc["seed"])
    is_reg = c.kind == "reg"
    y_id = np.where(c.lab, c.y_true.astype(int), -1)
    import inspect
    qparams = set(inspect.signature(e.cls.query).parameters)
    X_eval = np.round(rng.randn(3, c.d), 3) if (variant == "x_eval" and "X_eval" in qparams) else None

    def call(y, ml, classes):
        mk_params = inspect.signature(e.make).parameters
        qs = e.make(c.strategy_seed, ml, classes=tuple(classes)) if "classes" in mk_params else e.make(c.strategy_seed, ml)
        if desc.get("wrap", "none") != "none" and c.cmode != "idx_any" and not (c.cmode == "feat" and c.n_labeled == 0):
            import skactiveml.pool as P
            qs = P.SubSamplingWrapper(qs, max_candidates=0.6, exclude_non_subsample=desc["wrap"] == "sub_excl", missing_label=ml,
                                      random_state=c.strategy_seed)
        ctx = {"classes": list(classes), "ml": ml, "kind": c.kind}
        kw = dict(e.kwargs(ctx))
        if X_eval is not None:
            kw["X_eval"] = X_eval.copy()
        steps.begin()
        try:
            return qs.query(X=c.X.copy(), y=y, candidates=None if c.candidates is None else c.candidates.copy(), batch_size=c.bs,
                            return_utilities=True, **kw)
        finally:
            steps.end()

    viol = []
    if is_reg:
        y_ref = c.y.copy()
        y_alt = np.where(np.isnan(c.y), REG_SENTINELS["num"], c.y)
        enc = "num"
        if (desc["seed"] >> 4) % 3 == 0:
            # integer-valued targets stored in an integer array with a reserved number as sentinel
            y_ref = np.round(y_ref)
            y_alt = np.where(np.isnan(y_ref), REG_SENTINELS["num"], y_ref).astype(np.int64)
            enc = "num_int"
        ml_alt = REG_SENTINELS["num"]
        if (desc["seed"] >> 4) % 3 == 1:
            # targets in an object array next to the sentinel None
            y_alt = y_ref.astype(object)
            y_alt[np.isnan(y_ref)] = None
            enc, ml_alt = "none_obj", None
        runs = [("nan", lambda: call(y_ref, np.nan, [0, 1, 2])), (enc, lambda: call(y_alt, ml_alt, [0, 1, 2]))]
    else:
        y_ref = np.where(y_id < 0, np.nan, y_id.astype(float))
        y_alt, ml, classes = encode(y_id, desc["enc"])
        ncls = len(c.classes)
        runs = [("nan", lambda: call(y_ref, np.nan, list(range(ncls)))), (desc["enc"], lambda: call(y_alt, ml, classes[:ncls]))]
        enc = desc["enc"]
    outs, errs = {}, {}
    for nm, fn in runs:
        try:
            outs[nm] = fn()
        except steps.StepBudgetExceeded as ex:
            viol.append({"component": comp, "kind": "step-budget-exceeded", "detail": str(ex)})
        except Exception as ex:
            errs[nm] = "%s: %s" % (type(ex).__name__, str(ex)[:160])
    contracts.count("C09.encoding-pair-oracle")
    ctx = "%s variant=%s enc=%s wrapper=%s" % (poolcase.cell_summary(c), variant, enc, desc.get("wrap", "none"))
    if len(errs) == 1:
        nm = next(iter(errs))
        viol.append({"component": comp, "kind": "raises-under-one-encoding-only:%s" % ("reference" if nm == "nan" else "non-default"),
                     "detail": "encoding %s: %s [%s]" % (nm, errs[nm], ctx)})
    elif len(outs) == 2:
        why = _same_out(outs["nan"], outs[enc])
        if why:
            viol.append({"component": comp, "kind": "result-depends-on-encoding", "detail": "NaN/float vs %s: %s [%s]" % (enc, why, ctx)})
    from vf.monitors import contracts as ct
    ct.drain()
    for v in viol:
        v["trigger"] = triggers.classify("C09", v, c)
    n_obs = len(set(y_id[y_id >= 0].tolist()))
    nontrivial = (is_reg or n_obs >= 2) and (y_id < 0).any()
    cells = ["pool|%s" % e.name] + ([] if is_reg else ["enc=%s" % desc["enc"]])
    return {"status": "ok" if (outs or errs) else "skip", "violations": viol, "nontrivial": bool(nontrivial),
            "nt_key": "pool|%s|%s|%s|%s|%s|n%d|%d" % (e.name, enc, variant, c.data, c.labels, c.n, desc["seed"] % 9973), "cells": cells,
            "monitors": contracts.drain_evals(), "observed": dict(poolcase.cell_summary(c), enc=enc, variant=variant, errors=errs)}


def run_clf(desc):
    rng = gen.rng_for("c09c", desc["seed"])
    name = desc["name"]
    factory, multi, _ = models.CLASSIFIERS[name]
    n, d = int(rng.randint(3, 12)), int(rng.randint(1, 3))
    X = gen.make_X(rng, n, d, ["normal", "dups", "grid"][desc["seed"] % 3])
    y_id = rng.randint(0, 3, size=n)
    y_id[rng.rand(n) < 0.35] = -1
    if multi:
        y_id = np.tile(y_id[:, None], (1, 3))
        y_id[rng.rand(n, 3) < 0.3] = -1
    Q = np.vstack([X, gen.make_X(rng, 4, d, "normal")])
    cm = None
    if (desc["seed"] >> 4) % 3 == 0:
        cm = np.round(rng.rand(3, 3) * 3, 1)
        np.fill_diagonal(cm, 0)
    sw = np.round(rng.rand(*y_id.shape) + 0.3, 2) if (desc["seed"] >> 7) % 2 else None
    ml, dt, classes = ENCODINGS[desc["enc"]]
    comp = None
    viol = []

    path = desc.get("path", "fit")
    classes_none = bool(desc.get("classes_none")) and not multi and name not in ("sliding", "sliding_pwc", "sliding_pwc_cls")      # (inferred classes of a sliding window are those of the window, not of all y)
    if classes_none:
        cm = None
    windowed = name in ("sliding", "sliding_pwc", "sliding_pwc_cls") and (desc["seed"] >> 9) % 2 == 1

    def run(y, ml_, classes_):
        nonlocal comp
        kw_ = {"only_labeled": True, "window_size": 4} if windowed else {}
        clf = factory(None if classes_none else list(classes_), ml_, cm, 5, **kw_)
        comp = type(clf).__name__ + ("(%s)" % type(clf.estimator).__name__ if hasattr(clf, "estimator") else "")
        if multi and desc.get("explicit_member_classes") and hasattr(clf, "estimators"):
            for _, est in clf.estimators:
                est.set_params(classes=list(classes_))
        steps.begin()
        try:
            fit = clf.partial_fit if (path == "partial_fit" and hasattr(clf, "partial_fit")) else clf.fit
            if windowed:
                # a small window that keeps labelled samples only, filled by fit and several partial_fit calls on chunks
                # that contain unlabelled samples
                for a in range(0, len(X), 3):
                    f_ = clf.fit if a == 0 else clf.partial_fit
                    if sw is not None:
                        f_(X[a:a + 3], y[a:a + 3], sample_weight=sw[a:a + 3])
                    else:
                        f_(X[a:a + 3], y[a:a + 3])
            elif sw is not None:
                try:
                    fit(X, y, sample_weight=sw)
                except TypeError:
                    fit(X, y)
            else:
                fit(X, y)
            out = {"proba": np.asarray(clf.predict_proba(Q), float), "predict": np.asarray(clf.predict(Q)).tolist(),
                   "classes_": np.asarray(clf.classes_).tolist()}
            if hasattr(clf, "predict_freq"):
                out["freq"] = np.asarray(clf.predict_freq(Q), float)
            return out
        finally:
            steps.end()

    y_ref = np.where(y_id < 0, np.nan, y_id.astype(float))
    y_alt, _, _ = encode(y_id, desc["enc"])
    outs, errs = {}, {}
    for nm, args in (("nan", (y_ref, np.nan, [0, 1, 2])), (desc["enc"], (y_alt, ml, classes))):
        try:
            outs[nm] = run(*args)
        except steps.StepBudgetExceeded as ex:
            viol.append({"component": comp, "kind": "step-budget-exceeded", "detail": str(ex)})
        except Exception as ex:
            errs[nm] = "%s: %s" % (type(ex).__name__, str(ex)[:160])
    contracts.count("C09.encoding-pair-oracle")
    ctx = "clf=%s enc=%s n=%d cost=%s weights=%s member_classes=%s path=%s classes=%s" % (
        name, desc["enc"], n, cm is not None, sw is not None, desc.get("explicit_member_classes"), "windowed-chunks" if windowed else path, "None" if classes_none else "given")
    if len(errs) == 1:
        nm = next(iter(errs))
        viol.append({"component": comp, "kind": "raises-under-one-encoding-only:%s" % ("reference" if nm == "nan" else "non-default"),
                     "detail": "encoding %s: %s [%s]" % (nm, errs[nm], ctx)})
    elif len(outs) == 2:
        a, b = outs["nan"], outs[desc["enc"]]
        for k in ("proba", "freq"):
            if k in a and not np.allclose(a[k], b[k], rtol=1e-9, atol=1e-12, equal_nan=True):
                i = int(np.argmax(np.abs(a[k] - b[k]).max(axis=1)))
                viol.append({"component": comp, "kind": "%s-depends-on-encoding" % k, "detail": "query %d: %r vs %r [%s]" % (i, a[k][i].tolist(), b[k][i].tolist(), ctx)})
                break
        want = [classes[int(v)] for v in a["predict"]]
        if want != b["predict"]:
            viol.append({"component": comp, "kind": "predict-is-not-the-re-encoded-original", "detail": "%s vs re-encoded %s [%s]" % (b["predict"][:8], want[:8], ctx)})
        obs = sorted(set(y_id[y_id >= 0].ravel().tolist()))
        if b["classes_"] != ([classes[i] for i in obs] if classes_none else list(classes)):
            viol.append({"component": comp, "kind": "classes_-not-re-encoded", "detail": "%r" % (b["classes_"],)})
    for v in viol:
        v["trigger"] = triggers.classify("C09", v, desc)
    n_obs = len(set(y_id[y_id >= 0].ravel().tolist()))
    return {"status": "ok", "violations": viol, "nontrivial": bool(n_obs >= 2 and (y_id < 0).any()),
            "nt_key": "clf|%s|%s|n%d|%d" % (name, desc["enc"], n, desc["seed"] % 9973), "cells": ["clf|%s" % name, "enc=%s" % desc["enc"]],
            "monitors": contracts.drain_evals(), "observed": {"clf": name, "enc": desc["enc"], "n": n, "errors": errs}}


def run_stream(desc):
    rng = gen.rng_for("c09s", desc["seed"])
    name = desc["name"]
    n, d = 60, 2
    Xtr = np.round(rng.rand(14, d), 3)
    ytr_id = (Xtr[:, 0] > 0.5).astype(int)
    ytr_id[rng.rand(14) < 0.3] = -1
    X = streams.feature_stream(rng, n, d, "dyadic")
    chunks = streams.chunking(rng, n, "small")
    ml, dt, classes = ENCODINGS[desc["enc"]]
    seed = int(desc["seed"] % 10000)
    viol = []

    def run(y, ml_, classes_):
        clf = ParzenWindowClassifier(classes=list(classes_), missing_label=ml_, random_state=3).fit(Xtr, y)
        import inspect
        params = inspect.signature(getattr(S, name).__init__).parameters
        kw = {"budget": 0.3, "random_state": seed}
        if "classes" in params:
            kw["classes"] = list(classes_)
        qs = getattr(S, name)(**kw)
        hist = []
        steps.begin()
        try:
            for a, b in chunks:
                idx, util = streams.query_strategy(qs, X[a:b], clf)
                try:
                    streams.update_strategy(qs, X[a:b], idx, util)
                except Exception:
                    hist.append("update-raised")
                    break
                hist.append((tuple(int(i) for i in np.asarray(idx).ravel().tolist()), np.asarray(util, float)))
        finally:
            steps.end()
        return hist

    y_ref = np.where(ytr_id < 0, np.nan, ytr_id.astype(float))
    y_alt, _, _ = encode(ytr_id, desc["enc"])
    outs, errs = {}, {}
    for nm, args in (("nan", (y_ref, np.nan, [0, 1])), (desc["enc"], (y_alt, ml, classes[:2]))):
        try:
            outs[nm] = run(*args)
        except steps.StepBudgetExceeded as ex:
            viol.append({"component": name, "kind": "step-budget-exceeded", "detail": str(ex)})
        except Exception as ex:
            errs[nm] = "%s: %s" % (type(ex).__name__, str(ex)[:160])
    contracts.count("C09.encoding-pair-oracle")
    if len(errs) == 1:
        nm = next(iter(errs))
        viol.append({"component": name, "kind": "raises-under-one-encoding-only:%s" % ("reference" if nm == "nan" else "non-default"),
                     "detail": "encoding %s: %s" % (nm, errs[nm])})
    elif len(outs) == 2:
        a, b = outs["nan"], outs[desc["enc"]]
        for i, (x, y) in enumerate(zip(a, b)):
            if isinstance(x, str) or isinstance(y, str):
                if x != y:
                    viol.append({"component": name, "kind": "decisions-depend-on-encoding", "detail": "chunk %d" % i})
                break
            if x[0] != y[0] or not np.allclose(x[1], y[1], rtol=1e-9, atol=1e-12, equal_nan=True):
                viol.append({"component": name, "kind": "decisions-depend-on-encoding",
                             "detail": "chunk %d: NaN/float %s vs %s %s" % (i, list(x[0]), desc["enc"], list(y[0]))})
                break
    for v in viol:
        v["trigger"] = "any"
    return {"status": "ok", "violations": viol, "nontrivial": True,
            "nt_key": "stream|%s|%s|%d" % (name, desc["enc"], desc["seed"] % 9973), "cells": ["stream|%s" % name, "enc=%s" % desc["enc"]],
            "monitors": contracts.drain_evals(), "observed": {"strategy": name, "enc": desc["enc"], "errors": errs}}


def run_case(desc):
    steps.install()
    return {"pool": run_pool, "clf": run_clf, "stream": run_stream, "multi": run_multi}[desc["family"]](desc)


def run_multi(desc):
    """SingleAnnotatorWrapper(inner strategy) / IntervalEstimationThreshold on a label matrix under two encodings."""
    import inspect
    from skactiveml.pool.multiannotator import IntervalEstimationThreshold, SingleAnnotatorWrapper
    from skactiveml.classifier.multiannotator import AnnotatorEnsembleClassifier, AnnotatorLogisticRegression
    pb.setup()
    rng = gen.rng_for("c09m", desc["seed"])
    is_iet = desc["name"] == "iet"
    e = None if is_iet else POOL[desc["entry"]]
    n, d, A = int(rng.randint(4, desc["nmax"] + 1)), int(rng.randint(1, 3)), int(rng.randint(2, 4))
    X = gen.make_X(rng, n, d, ["normal", "dups", "grid", "far"][rng.randint(4)])
    ncls = 2 if (e is not None and e.binary) else 3
    y_true = rng.randint(0, ncls, size=n)
    Y_id = np.full((n, A), -1)
    lab = rng.rand(n) < 0.6
    if lab.all():
        lab[0] = False
    for i in np.flatnonzero(lab):
        who = np.ones(A, bool) if is_iet else rng.rand(A) < 0.6
        if not who.any():
            who[rng.randint(A)] = True
        Y_id[i, who] = np.where(rng.rand(int(who.sum())) < 0.75, y_true[i], rng.randint(0, ncls, size=int(who.sum())))
    unl = np.flatnonzero((Y_id < 0).all(axis=1))
    cands = None if rng.rand() < 0.5 else np.sort(rng.choice(unl, size=int(rng.randint(1, len(unl) + 1)), replace=False))
    bs = int(rng.randint(1, 5))
    nps = int(rng.randint(1, 3))
    seed = int(desc["seed"] % 100000)
    # as in the pool family the wrapped strategy names the component (known findings are keyed by it); the wrapper is
    # named in the detail text
    comp = "IntervalEstimationThreshold" if is_iet else e.cls.__name__
    use_lr = bool(seed % 2)

    def call(Y, ml, classes):
        classes = list(classes)
        kw = dict(X=X.copy(), y=Y, batch_size=bs, return_utilities=True)
        if cands is not None:
            kw["candidates"] = cands.copy()
        if is_iet:
            clf = AnnotatorLogisticRegression(classes=classes, missing_label=ml, random_state=0, max_iter=15) if use_lr else \
                AnnotatorEnsembleClassifier(estimators=[("p%d" % a, ParzenWindowClassifier(classes=classes, missing_label=ml, random_state=0))
                                                        for a in range(A)], voting="soft", classes=classes, missing_label=ml, random_state=0)
            qs = IntervalEstimationThreshold(missing_label=ml, random_state=seed)
            kw["clf"] = clf
        else:
            mk_params = inspect.signature(e.make).parameters
            inner = e.make(seed, ml, classes=tuple(classes)) if "classes" in mk_params else e.make(seed, ml)
            qs = SingleAnnotatorWrapper(inner, missing_label=ml, random_state=seed)
            kw.update(e.kwargs({"classes": classes, "ml": ml, "kind": "clf"}))
            kw["n_annotators_per_sample"] = nps
        steps.begin()
        try:
            return qs.query(**kw)
        finally:
            steps.end()

    Y_ref = np.where(Y_id < 0, np.nan, Y_id.astype(float))
    Y_alt, ml, classes = encode(Y_id, desc["enc"])
    viol, outs, errs = [], {}, {}
    for nm, args in (("nan", (Y_ref, np.nan, list(range(ncls)))), (desc["enc"], (Y_alt, ml, classes[:ncls]))):
        try:
            outs[nm] = call(*args)
        except steps.StepBudgetExceeded as ex:
            viol.append({"component": comp, "kind": "step-budget-exceeded", "detail": str(ex)})
        except Exception as ex:
            errs[nm] = "%s: %s" % (type(ex).__name__, str(ex)[:160])
    contracts.count("C09.encoding-pair-oracle")
    ctx = "multi=%s inner=%s enc=%s n=%d annotators=%d candidates=%s batch=%d" % (desc["name"], desc["entry"], desc["enc"], n, A,
                                                                              "None" if cands is None else "indices", bs)
    if len(errs) == 1:
        nm = next(iter(errs))
        viol.append({"component": comp, "kind": "raises-under-one-encoding-only:%s" % ("reference" if nm == "nan" else "non-default"),
                     "detail": "encoding %s: %s [%s]" % (nm, errs[nm], ctx)})
    elif len(outs) == 2:
        why = _same_out(outs["nan"], outs[desc["enc"]])
        if why:
            viol.append({"component": comp, "kind": "result-depends-on-encoding", "detail": "NaN/float vs %s: %s [%s]" % (desc["enc"], why, ctx)})
    contracts.drain()

    class _Case:
        entry = e
    for v in viol:
        v["trigger"] = "any" if is_iet else triggers.classify("C09", v, _Case)
    n_obs = len(set(Y_id[Y_id >= 0].tolist()))
    return {"status": "ok" if (outs or errs) else "skip", "violations": viol, "nontrivial": bool(n_obs >= 2),
            "nt_key": "multi|%s|%s|%s|n%d|%d" % (desc["name"], desc["entry"], desc["enc"], n, desc["seed"] % 9973),
            "cells": ["multi|%s" % desc["name"], "enc=%s" % desc["enc"]], "monitors": contracts.drain_evals(),
            "observed": {"strategy": comp, "inner": desc["entry"], "enc": desc["enc"], "n": n, "annotators": A, "errors": errs}}
