"""C11 - classifier outputs are valid probabilities and consistent decisions."""
import numpy as np

from vf import gen, models
from vf.core import stable_hash
from vf.monitors import contracts, steps
from vf.multiannot import make_arbitrary_matrix

PROPERTY = "C11"
TECHNIQUE = "post-condition contracts on fit/predict_proba/predict_freq/predict of every classifier, with a recording proxy on the predict_proba call made inside predict (decision optimality against that very matrix)"
RULE = ("cases = classifier (PWC variants, MixtureModelClassifier x2, SklearnClassifier x {GaussianNB, LogisticRegression, DecisionTree, "
        "KNN, RandomForest, SGD}, SlidingWindowClassifier, AnnotatorEnsembleClassifier hard/soft, AnnotatorLogisticRegression) x class "
        "list {0..K-1, non-contiguous numbers, strings} x K 2-4 x label regime {cold, oneclass, unobserved, half, random, separated} x "
        "weights {None, random incl. zeros} x cost matrix {None, random asymmetric zero-diagonal} x fit / partial_fit path x query points "
        "{training, random, far away}; contracts: predict_proba finite, shape (n, K), >= 0, rows sum to 1 (atol 1e-8); predict_freq >= 0; "
        "predict only members of classes_ and minimising P @ cost_matrix_ for the P recorded inside predict (rel. tol 1e-12); columns "
        "ordered as classes_ (separated regime: argmax at a class centre is that class); no labels + declared classes => uniform. "
        "Non-trivial = K >= 3 or a cost matrix or an unobserved declared class; distinct by (clf, classes kind, K, regime, weights, cost, n, seed).")
ASSUMPTIONS = [
    "SklearnClassifier without cost matrix: the wrapped estimator's own predict is accepted as 'most probable' (third-party predict need not be the argmax of its predict_proba): membership only",
    "documented not-fitted fallback (labels drawn at random from the label distribution): membership and positive probability only",
    "hard-voting ensembles are exempt from the uniform-without-labels clause (property text)",
]
REQUIRED_MONITORS = ["C11.predict_proba-contract", "C11.predict-decision-contract", "C11.uniform-without-labels"]
REGIMES = ["cold", "oneclass", "unobserved", "half", "random", "separated"]
CLASS_KINDS = ["range", "numbers", "strings"]
ORDER_CHECK = {"pwc", "sk_nb", "sk_tree", "sk_knn", "sk_lr"}   # not pwc_knn: its nearest neighbours may all be unlabelled


def gen_cases(tier, seed):
    reps = {"quick": 14, "thorough": 800}[tier]
    cases = []
    for name in models.CLASSIFIERS:
        for i in range(reps):
            s = stable_hash(seed, "C11", name, i)
            cases.append({"clf": name, "seed": s, "regime": REGIMES[i % len(REGIMES)], "ckind": CLASS_KINDS[(i // 2) % 3],
                          "K": 2 + (s % 3), "weights": bool((s >> 4) % 2), "cost": bool((s >> 6) % 2),
                          "partial": bool((s >> 8) % 3 == 0)})
    # degenerate training sets of the default GaussianNB (NaN probabilities -> documented fall-back): several classes observed,
    # default costs, so that the most frequent class is generally not the first one
    for i in range({"quick": 16, "thorough": 300}[tier]):
        s = stable_hash(seed, "C11", "nb-degenerate", i) | 32        # (bit 5 set: coinciding labelled rows)
        cases.append({"clf": "sk_nb_default", "seed": s, "regime": ["half", "random"][i % 2], "ckind": CLASS_KINDS[i % 3], "K": 3,
                      "weights": False, "cost": False, "partial": bool(i % 4 == 3)})
    # an estimator without predict_proba: after a fit that cannot train it (no label / one class) predict still answers with
    # members of classes_
    for i in range({"quick": 8, "thorough": 100}[tier]):
        cases.append({"clf": "noproba", "seed": stable_hash(seed, "C11", "noproba", i), "regime": ["cold", "oneclass"][i % 2],
                      "ckind": CLASS_KINDS[i % 3], "K": 2 + i % 2, "weights": False, "cost": False, "partial": False})
    for k, c in enumerate(cases):
        c["id"] = "%s-%04d" % (c["clf"], k)
    return cases


def required_cells(tier):
    return ["clf=%s" % c for c in models.CLASSIFIERS] + ["regime=%s" % r for r in REGIMES]


def _classes(kind, K):
    if kind == "range":
        return list(range(K)), np.nan, float
    if kind == "numbers":
        return [3, 10, 25, 40][:K], -1, int
    return ["aa", "bb", "cc", "dd"][:K], None, object


def _check_proba(P, n, K, add, what, atol=1e-8):
    P = np.asarray(P)
    if P.shape != (n, K):
        add("proba-wrong-shape", "%s: %s != %s" % (what, P.shape, (n, K)))
        return False
    try:
        Pf = P.astype(float)
    except Exception:
        add("proba-not-numeric", what)
        return False
    if not np.isfinite(Pf).all():
        add("proba-not-finite", "%s: %r" % (what, Pf[~np.isfinite(Pf).all(axis=1)][:2].tolist()))
        return False
    if (Pf < 0).any():
        add("proba-negative", "%s: min %r" % (what, float(Pf.min())))
    if not np.allclose(Pf.sum(axis=1), 1.0, rtol=0, atol=atol):
        bad = int(np.argmax(np.abs(Pf.sum(axis=1) - 1)))
        add("proba-rows-do-not-sum-to-one", "%s: row %d = %r (sum %r)" % (what, bad, Pf[bad].tolist(), float(Pf[bad].sum())))
    return True


def _delegation_judgeable(clf, Q):
    """predict delegated to a wrapped estimator: the decision can be judged against the reported probabilities unless a
    wrapper in the chain is in its documented not-fitted fall-back (predictions are then DRAWN from the label distribution)."""
    cur = clf
    for _ in range(4):
        if getattr(cur, "is_fitted_", True) is False:
            return False
        nxt = getattr(cur, "estimator_", None)
        if nxt is None:
            break
        cur = nxt
    # (non-finite probabilities of the third-party estimator at the bottom are replaced by the label distribution in
    # predict_proba - and predict has to follow that distribution: judged)
    return True


def _run_noproba(desc):
    from sklearn.svm import LinearSVC
    from sklearn.linear_model import Perceptron
    from skactiveml.classifier import SklearnClassifier
    rng = gen.rng_for("c11np", desc["seed"])
    K = desc["K"]
    classes, ml, dt = _classes(desc["ckind"], K)
    n = int(rng.randint(2, 9))
    X = np.round(rng.randn(n, 2), 3)
    y = np.empty(n, dtype=dt)
    for i in range(n):
        y[i] = ml
    if desc["regime"] == "oneclass":
        y[0] = classes[int(rng.randint(K))]
    est = LinearSVC(random_state=0) if desc["seed"] % 2 else Perceptron(random_state=0)
    clf = SklearnClassifier(est, classes=list(classes), missing_label=ml, random_state=int(desc["seed"] % 1000))
    comp = "SklearnClassifier(%s)" % type(est).__name__
    viol = []
    import warnings as _w
    try:
        with _w.catch_warnings():
            _w.simplefilter("ignore")
            pred = np.asarray(clf.fit(X, y).predict(X))
        contracts.count("C11.predict-decision-contract")
        contracts.count("C11.predict_proba-contract", 0)
        if pred.shape != (n,) or not all(p in list(classes) for p in pred.tolist()):
            viol.append({"component": comp, "kind": "predict-not-a-class", "trigger": "any", "detail": "%r vs classes %r" % (pred.tolist(), classes)})
    except Exception as ex:
        viol.append({"component": comp, "kind": "predict-raises:%s" % type(ex).__name__, "trigger": "any",
                     "detail": "estimator without predict_proba, regime=%s: %s" % (desc["regime"], str(ex)[:150])})
    return {"status": "ok", "violations": viol, "nontrivial": True, "nt_key": "noproba|%s|%d" % (desc["regime"], desc["seed"] % 9973),
            "cells": ["regime=%s" % desc["regime"]], "monitors": contracts.drain_evals(),
            "observed": {"clf": comp, "regime": desc["regime"]}}


def run_case(desc):
    steps.install()
    if desc["clf"] == "noproba":
        return _run_noproba(desc)
    rng = gen.rng_for("c11", desc["seed"])
    name = desc["clf"]
    factory, multi, own_proba = models.CLASSIFIERS[name]
    K = desc["K"]
    classes, ml, dt = _classes(desc["ckind"], K)
    n = int(rng.randint(2, 15))
    if name == "mixture_default":
        n = max(n, K)      # the default mixture has one component per class; scikit-learn needs n_samples >= n_components
    d = int(rng.randint(1, 4))
    regime = desc["regime"]
    if regime == "separated":
        cid = rng.randint(0, K, size=n)
        X = np.zeros((n, d))            # only feature 0 is informative (a tree may otherwise split on a noise feature)
        X[:, 0] = 100.0 * cid + rng.randn(n) * 0.05
        lab = rng.rand(n) < 0.8
        y_id = cid
    else:
        X = gen.make_X(rng, n, d, gen.DATA_MODES[rng.randint(len(gen.DATA_MODES))])
        y_true, lab = gen.make_labels(rng, n, regime, kind="clf", n_classes=K)
        y_id = y_true.astype(int)
    if name == "sk_nb_default" and (desc["seed"] >> 5) % 2 and lab.any():
        # coinciding labelled rows: zero variance, the wrapped GaussianNB returns NaN probabilities and the wrapper's
        # documented fall-back (label distribution) answers - for predict_proba and for predict alike
        X = np.array(X, dtype=float)
        X[lab] = X[np.flatnonzero(lab)[0]]
    n_annot = 3
    if multi:
        if regime == "cold":
            Yid = np.full((n, n_annot), -1)
        else:
            M = (rng.rand(n, n_annot) < 0.6) & lab[:, None]
            Yid = np.where(M, np.where(rng.rand(n, n_annot) < 0.8, y_id[:, None], rng.randint(0, K, size=(n, n_annot))), -1)
        y = np.empty((n, n_annot), dtype=dt)
        for i in range(n):
            for a in range(n_annot):
                y[i, a] = ml if Yid[i, a] < 0 else classes[Yid[i, a]]
        observed = set(Yid[Yid >= 0].tolist())
    else:
        y = np.empty(n, dtype=dt)
        for i in range(n):
            y[i] = classes[y_id[i]] if lab[i] else ml
        observed = set(y_id[lab].tolist())
    cm = None
    if desc["cost"]:
        cm = np.round(rng.rand(K, K) * 4, 1)
        if rng.rand() < 0.5:          # strongly asymmetric costs: the cheapest decision is often not the most probable class
            cm[rng.randint(K)] *= 10.0
        if (desc["seed"] >> 16) % 4 == 0:
            # expected costs that differ in the sixth digit only (no labels -> uniform P): still a unique cheapest class
            cm = np.ones((K, K)) + 4e-6 * rng.permutation(K)[None, :]
        np.fill_diagonal(cm, 0.0)
    sw = None
    if desc["weights"]:
        sw = np.round(rng.rand(*y.shape) * 2, 2)
        sw[rng.rand(*y.shape) < 0.25] = 0.0
        if multi and (Yid >= 0).any():
            rows_l = np.flatnonzero((Yid >= 0).any(axis=1))
            sw[rows_l[int(rng.randint(len(rows_l)))]] = 0.0          # every label of one labelled sample has weight zero
    viol = []

    def add(kind, detail):
        if not any(v["kind"] == kind for v in viol):
            viol.append({"component": type(clf).__name__ + ("(%s)" % type(getattr(clf, "estimator", None)).__name__
                                                            if hasattr(clf, "estimator") else ""),
                         "kind": kind, "detail": detail, "trigger": "any"})

    # the class list is DECLARED in an arbitrary order; cost_matrix[i, j] refers to that declared order
    declared = [classes[i] for i in rng.permutation(K)] if (desc["seed"] >> 10) % 3 else list(classes)
    pos = [classes.index(c) for c in declared]                      # declared position -> sorted class index
    cm_declared = None if cm is None else cm[np.ix_(pos, pos)]      # the same costs, written down in declared order
    # (weighted fits of the annotator model use the solver that passes non-finite parameters through to the probabilities)
    extra_kw = {"solver": "SLSQP"} if (name == "annot_lr" and desc["weights"]) else {}
    clf = factory(declared, ml, cm_declared, int(desc["seed"] % 1000), **extra_kw)
    ctx = "clf=%s declared classes=%r regime=%s n=%d labelled=%d weights=%s cost=%s" % (name, declared, regime, n, int(lab.sum()), desc["weights"], desc["cost"])
    import inspect
    # feature dtype / layout a caller may well have: single precision, Fortran order
    xkind = ["f64", "f64", "f32", "fortran"][(desc["seed"] >> 14) % 4]
    if xkind == "f32":
        X = X.astype(np.float32)
    elif xkind == "fortran":
        X = np.asfortranarray(X)
    ctx += " X=%s" % xkind

    def _fit(method, Xa, ya, wa):
        fn = getattr(clf, method)
        if wa is not None:
            try:
                params = inspect.signature(fn).parameters
            except (TypeError, ValueError):
                params = {}
            if "sample_weight" in params or any(p.kind == p.VAR_KEYWORD for p in params.values()):
                return fn(Xa, ya, sample_weight=wa)
        return fn(Xa, ya)

    steps.begin()
    try:
        if desc["partial"] and hasattr(clf, "partial_fit"):
            h = n // 2
            _fit("partial_fit", X[:h], y[:h], None if sw is None else sw[:h])
            _fit("partial_fit", X[h:], y[h:], None if sw is None else sw[h:])
            path = "partial_fit"
        else:
            if (desc["seed"] >> 17) % 3 == 0:
                # the object has been fitted before, on fully labelled data: fit starts from scratch, whatever it learned
                # then (a warm start, a stored window, counts) must not show in the model of the second training set
                y_full = np.empty(y.shape, dtype=dt)
                if multi:
                    for a in range(n_annot):
                        y_full[:, a] = [classes[i] for i in y_id]
                else:
                    y_full[:] = [classes[i] for i in y_id]
                try:
                    _fit("fit", X, y_full, None)
                    ctx += " refit-after-labelled-fit"
                    contracts.count("C11.refit-history")
                except Exception:
                    pass
            _fit("fit", X, y, sw)
            path = "fit"
    except steps.StepBudgetExceeded as ex:
        add("step-budget-exceeded", "fit: %s" % ex)
        path = None
    except Exception as ex:
        if name == "mixture_default" and ("ill-defined empirical covariance" in str(ex) or "n_components" in str(ex)):
            # scikit-learn's default Gaussian mixture (one component per class, reg_covar 1e-6) cannot be estimated from
            # collapsed / too few samples: a requirement of the third-party model, not a verdict
            return {"status": "skip", "skip_reason": "default mixture model not estimable from this training set (scikit-learn)"}
        add("fit-raises:%s" % type(ex).__name__, "%s: %s" % (ctx, str(ex)[:200]))
        path = None
    finally:
        steps.end()
    stats = {"predict_calls": 0, "decision_checked": 0}
    if path is not None:
        Xq = [X, gen.make_X(rng, 5, d, "normal"), gen.make_X(rng, 3, d, "normal") * 1e3 + 500.0]
        if xkind == "f32":
            Xq = [q.astype(np.float32) for q in Xq]
        if regime == "separated":
            centres = np.zeros((K, d))
            centres[:, 0] = 100.0 * np.arange(K)
            Xq.append(centres)
        cl = list(np.asarray(clf.classes_).tolist())
        if cl != sorted(classes):
            add("classes_-not-the-declared-classes", "%r vs %r" % (cl, classes))
        for qi, Q in enumerate(Xq):
            what = "%s query-set %d" % (ctx, qi)
            try:
                steps.begin()
                P = clf.predict_proba(Q)
                contracts.count("C11.predict_proba-contract")
                # probabilities passed through from a third-party estimator carry its rounding (GaussianNB loses
                # ~1e-6 at query points with log-likelihoods around -1e9): the tolerance is 1e-8 plus the deviation of
                # the wrapped estimator's own rows from 1
                atol = 1e-8
                inner = clf
                while hasattr(inner, "estimator_"):
                    inner = inner.estimator_
                if inner is not clf and hasattr(inner, "predict_proba") and not hasattr(inner, "missing_label"):
                    try:     # rounding of the wrapped third-party estimator itself
                        dev = np.abs(np.asarray(inner.predict_proba(Q), dtype=float).sum(axis=1) - 1)
                        if np.isfinite(dev).any():      # NaN rows of the wrapped estimator trigger the documented fall-back
                            atol += float(np.nanmax(dev[np.isfinite(dev)]))
                    except Exception:
                        pass
                ok = _check_proba(P, len(Q), K, add, what, atol=atol)
                if hasattr(clf, "predict_freq"):
                    F = np.asarray(clf.predict_freq(Q), dtype=float)
                    if F.shape != (len(Q), K) or (F < 0).any() or np.isnan(F).any():
                        add("predict_freq-invalid", "%s: shape %s min %r" % (what, F.shape, float(np.nanmin(F)) if F.size else None))
                # ---- decision: recording proxy on the predict_proba call made inside predict
                rec = []
                orig = clf.predict_proba

                def proxy(Xp, *a, _orig=orig, **k):
                    out = _orig(Xp, *a, **k)
                    rec.append((len(np.asarray(Xp)), np.array(out, dtype=float, copy=True)))
                    return out
                clf.predict_proba = proxy
                try:
                    pred = clf.predict(Q)
                finally:
                    del clf.predict_proba
                stats["predict_calls"] += 1
                contracts.count("C11.predict-decision-contract")
                pred = np.asarray(pred)
                if pred.shape != (len(Q),):
                    add("predict-wrong-shape", "%s: %s" % (what, pred.shape))
                members = [p in cl for p in pred.tolist()]
                if not all(members):
                    add("predict-not-a-class", "%s: predictions %r, classes_ %r" % (what, pred.tolist()[:8], cl))
                elif (rec and rec[-1][0] == len(Q) and rec[-1][1].shape == (len(Q), K)) or (not rec and ok and _delegation_judgeable(clf, Q)):
                    # predict may delegate to a wrapped classifier instead of calling its own predict_proba: the decision is
                    # then judged against the probabilities the classifier itself reports for the same points
                    Pin = rec[-1][1] if rec else np.asarray(P, dtype=float)
                    if not rec:
                        stats["decision_checked_against_reported_proba"] = stats.get("decision_checked_against_reported_proba", 0) + 1
                    # own reconstruction of the costs in classes_ (sorted) order from what the user declared - the
                    # library's cost_matrix_ is deliberately not trusted
                    C = (1.0 - np.eye(K)) if cm is None else np.asarray(cm, dtype=float)
                    costs = Pin @ C
                    chosen = costs[np.arange(len(Q)), [cl.index(p) for p in pred.tolist()]]
                    best = costs.min(axis=1)
                    stats["decision_checked"] += 1
                    tol = 1e-12 * max(1.0, float(np.abs(costs).max()))
                    if (chosen > best + tol).any():
                        r = int(np.argmax(chosen - best))
                        add("predict-not-cost-minimal", "%s: row %d P=%r costs=%r predicted %r" % (what, r, Pin[r].tolist(), costs[r].tolist(), pred[r]))
                elif rec and rec[-1][0] == 1:      # not-fitted fallback of SklearnClassifier: sampled from P of the first row
                    p0 = rec[-1][1][0]
                    if any(p0[cl.index(p)] <= 0 for p in pred.tolist()):
                        add("predict-zero-probability-class", "%s: distribution %r predictions %r" % (what, p0.tolist(), pred.tolist()[:8]))
                # ---- column order
                if regime == "separated" and qi == 3 and name in ORDER_CHECK and ok and sw is None and path == "fit":
                    Pf = np.asarray(P, dtype=float)
                    for c in sorted(observed):
                        if int(np.argmax(Pf[c])) != c or Pf[c, c] <= 0.5:
                            add("columns-not-in-classes_-order", "%s: at the centre of class %r (index %d) P=%r" % (what, classes[c], c, Pf[c].tolist()))
                            break
                # ---- uniform without labels
                if len(observed) == 0 and own_proba:
                    contracts.count("C11.uniform-without-labels")
                    Pf = np.asarray(P, dtype=float)
                    if Pf.shape == (len(Q), K) and not np.allclose(Pf, 1.0 / K, rtol=0, atol=1e-12):
                        add("not-uniform-without-labels", "%s: %r" % (what, Pf[0].tolist()))
            except steps.StepBudgetExceeded as ex:
                add("step-budget-exceeded", "predict: %s" % ex)
            except Exception as ex:
                add("predict-raises:%s" % type(ex).__name__, "%s: %s" % (what, str(ex)[:200]))
            finally:
                steps.end()
    if len(observed) != 0:
        contracts.count("C11.uniform-without-labels", 0)
    unobserved = len(observed) < K
    nontrivial = K >= 3 or cm is not None or unobserved
    return {"status": "ok", "violations": viol, "nontrivial": bool(nontrivial),
            "nt_key": "%s|%s|K%d|%s|w%d|c%d|n%d|%s|%d" % (name, desc["ckind"], K, regime, desc["weights"], desc["cost"], n, path, desc["seed"] % 997),
            "cells": ["clf=%s" % name, "regime=%s" % regime], "monitors": contracts.drain_evals(), "counters": stats,
            "observed": {"clf": name, "classes": classes, "regime": regime, "n": n, "labelled": int(lab.sum()), "path": path,
                         "observed_classes": sorted(observed), "cost_matrix": None if cm is None else cm.tolist()}}
