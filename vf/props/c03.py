"""C03 - stream query is a pure simulation: it never changes strategy state."""
import numpy as np
from skactiveml.classifier import ParzenWindowClassifier

from vf import gen, streams
from vf.core import stable_hash
from vf.monitors import contracts, state as st, steps

PROPERTY = "C03"
TECHNIQUE = "state-fingerprint contract around every stream query + twin-history comparison (extra queries injected into one of two identical runs)"
RULE = ("cases = (stream strategy x {default, every compatible explicit budget manager}) and (budget manager alone) x budget x "
        "window x chunking x stream kind x random_state kind {int, RandomState instance, None}; monitors: (i) fingerprint of all "
        "fitted state (nested budget_manager_, RandomState.get_state(), deques, and the process-global generator) before/after "
        "EVERY query - attributes that exist before must be byte-identical after; (ii) every query is immediately repeated and "
        "must return identical indices and utilities; (iii) twin run: two objects built from equal parameters consume the same "
        "stream with the same updates, the twin additionally receives 0-3 extra queries per step on the same and on other "
        "chunks; the recorded result sequences must be identical and the final fingerprints equal. Non-trivial = some chunk of "
        "length >= 2 contains both a grant and a refusal, or a window eviction happens, or the object draws random numbers; "
        "distinct by (object, manager, budget, w, chunking, stream, rs-kind).")
ASSUMPTIONS = [
    "lazy creation of a fitted attribute on the first query is allowed at the attribute level; its behavioural neutrality is decided by the twin history (DESIGN 5.7)",
    "with random_state=None both twins are run one after the other from the same np.random.seed",
]
REQUIRED_MONITORS = ["C03.query-state-contract", "C03.twin-history-checker", "C03.repeat-contract"]
RANDOMISED = {"StreamRandomSampling", "RandomVariableUncertainty", "Split", "CognitiveDualQueryStrategyRan",
              "CognitiveDualQueryStrategyRanVarUn", "RandomVariableUncertaintyBudgetManager", "SplitBudgetManager",
              "RandomBudgetManager", "DensityBasedSplitBudgetManager", "StreamDensityBasedAL"}
BUDGETS = [0.02, 0.1, 0.3, 0.5, 0.9, 1.0]
WINDOWS = [1, 2, 5, 20, 100, 200]


def gen_cases(tier, seed):
    reps = {"quick": 4, "thorough": 20}[tier]
    n = {"quick": 150, "thorough": 2000}[tier]
    cases = []
    for name in streams.STRAT_NAMES:
        for bm in streams.compatible_bms(name):
            for i in range(reps):
                cases.append({"family": "strategy", "name": name, "bm": bm, "i": i})
    for name in streams.BM_NAMES:
        for i in range(reps * 3):
            cases.append({"family": "bm", "name": name, "bm": None, "i": i})
    for k, c in enumerate(cases):
        s = stable_hash(seed, "C03", c["family"], c["name"], c["bm"], c["i"])
        c.update(seed=s, budget=BUDGETS[s % len(BUDGETS)], w=WINDOWS[(s >> 4) % len(WINDOWS)],
                 chunking=["one", "small", "small", "large"][(s >> 8) % 4], rs=["used_instance", "int", "instance", "none"][(c["i"] + stable_hash(seed, "rs", c["name"], c["bm"])) % 4],
                 n=n if c["name"] not in ("StreamProbabilisticAL",) else n // 3,
                 stream=["dyadic", "uncertain", "clustered"][(s >> 14) % 3],
                 clf=["stub", "stub", "pwc"][(s >> 17) % 3])
        c["id"] = "%s-%s-%s-%03d" % (c["family"], c["name"], c["bm"], k)
    return cases


def required_cells(tier):
    return ["strategy|%s" % n for n in streams.STRAT_NAMES] + ["bm|%s" % n for n in streams.BM_NAMES]


def _rs(kind, seed):
    if kind == "int":
        return seed % (2**31 - 1)
    if kind == "instance":
        return np.random.RandomState(seed % (2**31 - 1))
    if kind == "used_instance":
        # a generator the caller has used before: one normal draw leaves a cached second Gaussian in its state
        rs = np.random.RandomState(seed % (2**31 - 1))
        rs.normal()
        return rs
    return None


def _build(desc):
    seed = desc["seed"]
    if desc["family"] == "bm":
        obj = streams.make_bm(desc["name"], desc["budget"], desc["w"], _rs(desc["rs"], seed), **streams.variant_kwargs(desc["name"], seed))
        return obj
    bm = None
    if desc["bm"]:
        bm = streams.make_bm(desc["bm"], desc["budget"], desc["w"], _rs(desc["rs"], seed + 1), **streams.variant_kwargs(desc["bm"], seed + 1))
    extra = dict(streams.variant_kwargs(desc["name"], seed))
    if desc["name"] == "StreamDensityBasedAL":
        extra["window_size"] = max(2, desc["w"] // 2)
    if desc["name"].startswith("Cognitive"):
        extra["cognition_window_size"] = max(2, min(desc["w"], 15))
        extra["force_full_budget"] = bool(seed % 2)
        extra["density_threshold"] = 1 + seed % 2
    if desc.get("train") and desc["name"] in streams.NEEDS_FREQ:
        extra["metric"] = "rbf"       # the strategy estimates the frequencies itself from the training data given to query
    return streams.make_strategy(desc["name"], None if bm is not None else desc["budget"], _rs(desc["rs"], seed), bm=bm, **extra)


def _norm(res):
    idx, u = res
    return [int(i) for i in np.asarray(idx).ravel().tolist()], np.asarray(u, dtype=float)


def _same(a, b):
    return a[0] == b[0] and a[1].shape == b[1].shape and np.array_equal(a[1], b[1], equal_nan=True)


def run_case(desc):
    steps.install()
    rng = gen.rng_for("c03", desc["seed"])
    n, d = desc["n"], int(rng.randint(1, 4))
    is_bm = desc["family"] == "bm"
    if is_bm:
        U = streams.utility_stream(rng, ["uniform", "dyadic", "near_budget", "alternating", "nan_bursts", "const1"][desc["seed"] % 6],
                                   n, desc["budget"])
        U = np.nan_to_num(U, nan=0.0) if desc["name"] == "BalancedIncrementalQuantileFilter" else U
        X = rng.rand(n, d)
    else:
        X = streams.feature_stream(rng, n, d, desc["stream"])
        if (desc["seed"] >> 15) % 4 == 0:
            X = X.astype(np.float32)          # single-precision instances are legal input
        U = None
    chunks = streams.chunking(rng, n, desc["chunking"])
    clf = None
    if not is_bm:
        clf = streams.pwc_clf(gen.rng_for("c03clf", desc["seed"]), d) if (
            desc["clf"] == "pwc" or desc["name"] in streams.NEEDS_FREQ) else streams.stub_clf()
    # training data given to the query itself: a sliding training window of constant shape whose content moves from call to
    # call (the usual stream set-up); extra queries of the twin see other windows of the same shape
    train = (not is_bm) and isinstance(clf, ParzenWindowClassifier) and (desc["seed"] >> 11) % 2 == 1
    desc = dict(desc, train=train)
    WL = 8
    if train:
        trng = gen.rng_for("c03train", desc["seed"])
        Xtr = np.round(trng.rand(40, d), 3).astype(X.dtype)
        ytr = (Xtr[:, 0] > 0.5).astype(float)
        ytr[trng.rand(40) < 0.3] = np.nan
        wtr = np.round(trng.rand(40) + 0.2, 2) if (desc["seed"] >> 12) % 2 else None
        fit_clf = bool((desc["seed"] >> 13) % 2)
    viol = []
    comp = desc["name"] if not desc["bm"] else "%s+%s" % (desc["name"], desc["bm"])
    stats = {"queries": 0, "mixed_chunks": 0, "extras": 0, "queries_with_training_window": 0}

    def call(obj, cand, off):
        if not train or not streams.needs_clf(obj):
            return streams.query_strategy(obj, cand, clf)
        stats["queries_with_training_window"] += 1
        kw = {} if wtr is None else {"sample_weight": wtr[off:off + WL]}
        return obj.query(cand, clf=clf, X=Xtr[off:off + WL], y=ytr[off:off + WL], fit_clf=fit_clf, return_utilities=True, **kw)

    def add(kind, detail):
        if not any(v["kind"] == kind for v in viol):
            viol.append({"component": comp, "kind": kind, "detail": detail, "trigger": "any"})

    def do_query(obj, a, b, check=True, off=0):
        """monitored query: state contract + repeat contract"""
        cand = X[a:b]
        before = streams.state_fp(obj)
        g_before = st.fp(np.random.get_state()[1]) if desc["rs"] == "none" else None
        gpos_before = np.random.get_state()[2] if desc["rs"] == "none" else None
        steps.begin()
        raised = None
        try:
            if is_bm:
                idx = obj.query_by_utility(U[a:b])
                res = (idx, U[a:b])
            else:
                res = call(obj, cand, off)
        except steps.StepBudgetExceeded:
            raise
        except Exception as ex:      # recorded as the result of this call; the state contract still runs
            raised = "%s: %s" % (type(ex).__name__, str(ex)[:120])
            res = ([-1], np.array([np.nan]))
            stats["query_raised"] = stats.get("query_raised", 0) + 1
        finally:
            steps.end()
        stats["queries"] += 1
        after = streams.state_fp(obj)
        contracts.count("C03.query-state-contract")
        if before != after:
            # lazily created attributes (absent before, at any nesting depth) are allowed; everything that
            # existed before the call must be unchanged
            paths = [p for p in st.diff(before, after) if not (p[1] == "absent" and p[2] == "present")]
            if paths:
                add("state-changed-by-query", "changed: %s" % [(p[0], str(p[1])[:40], str(p[2])[:40]) for p in paths][:4])
        if desc["rs"] == "none":
            if st.fp(np.random.get_state()[1]) != g_before or np.random.get_state()[2] != gpos_before:
                add("global-generator-advanced-by-query", "np.random state differs after query")
        if check and raised is None:
            try:
                if is_bm:
                    res2 = (obj.query_by_utility(U[a:b]), U[a:b])
                else:
                    res2 = call(obj, cand, off)
            except steps.StepBudgetExceeded:
                raise
            except Exception as ex:
                res2 = None
                add("repeated-query-differs", "chunk [%d,%d): first call returned %s, the identical second call raised %s: %s"
                    % (a, b, _norm(res)[0], type(ex).__name__, str(ex)[:100]))
            contracts.count("C03.repeat-contract")
            if res2 is not None and not _same(_norm(res), _norm(res2)):
                add("repeated-query-differs", "chunk [%d,%d): %s vs %s" % (a, b, _norm(res)[0], _norm(res2)[0]))
        return _norm(res)

    def run(extra):
        if desc["rs"] == "none":
            np.random.seed(desc["seed"] % (2**31 - 1))
        obj = _build(desc)
        erng = gen.rng_for("c03extra", desc["seed"])
        out = []
        for ci, (a, b) in enumerate(chunks):
            if extra:
                for _ in range(int(erng.randint(0, 4))):
                    eoff = int(erng.randint(0, 32))
                    if erng.rand() < 0.5:
                        do_query(obj, a, b, check=False, off=eoff)
                    else:
                        a2 = int(erng.randint(0, n - 1))
                        b2 = int(min(n, a2 + erng.randint(1, 16)))
                        do_query(obj, a2, b2, check=False, off=eoff)
                    stats["extras"] += 1
            r = do_query(obj, a, b, check=not extra, off=(3 * ci) % 32)
            out.append(r)
            if r[0] == [-1]:
                break
            if b - a >= 2 and 0 < len(r[0]) < b - a:
                stats["mixed_chunks"] += 1
            try:
                # the chunk is handed over in a buffer that the caller re-uses afterwards: nothing of the committed state may
                # live in the caller's memory
                buf = np.array(X[a:b], copy=True)
                if is_bm:
                    streams.update_bm(obj, buf, np.array(r[0], dtype=int), U[a:b])
                else:
                    streams.update_strategy(obj, buf, np.array(r[0], dtype=int), r[1])
                if extra:        # (only in the twin run: the plain run is the reference in which nothing is overwritten)
                    buf[...] = 12345.0
            except Exception as ex:   # update failures are judged by C10; the history simply ends here
                stats["update_raised"] = stats.get("update_raised", 0) + 1
                break
        return out, streams.state_fp(obj)

    try:
        ra, fa = run(False)
        rb, fb = run(True)
    except steps.StepBudgetExceeded as ex:
        return {"status": "inconclusive", "reason": "step budget in stream run: %s" % ex}
    contracts.count("C03.twin-history-checker")
    for ci, (x, y) in enumerate(zip(ra, rb)):
        if not _same(x, y):
            add("twin-history-differs", "chunk %d %s: plain %s vs with-extra-queries %s" % (ci, chunks[ci], x[0], y[0]))
            break
    if fa != fb:
        add("twin-final-state-differs", "paths %s" % [p[0] for p in st.diff(fa, fb)][:6])
    granted = sum(len(r[0]) for r in ra)
    nontrivial = stats["mixed_chunks"] > 0 or desc["name"] in RANDOMISED or (desc["bm"] or "") in RANDOMISED
    return {"status": "ok", "violations": viol, "nontrivial": bool(nontrivial),
            "nt_key": "%s|%s|b%s|w%s|%s|%s|%s|%s" % (desc["name"], desc["bm"], desc["budget"], desc["w"], desc["chunking"],
                                                    desc["stream"], desc["rs"], desc["clf"]),
            "cells": ["%s|%s" % (desc["family"], desc["name"])], "monitors": contracts.drain_evals(),
            "counters": stats,
            "observed": {"n": n, "chunks": len(chunks), "granted": granted, "first_results": [r[0] for r in ra[:6]],
                         "mixed_chunks": stats["mixed_chunks"], "extra_queries": stats["extras"]}}
