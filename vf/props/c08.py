"""C08 - a sample's utility does not depend on how candidates are addressed."""
import numpy as np

from vf import gen, poolcase
from vf.core import stable_hash
from vf.monitors import contracts, steps
from vf.props import _pool_batch as pb
from vf.registry import POOL, missing_from_registry

PROPERTY = "C08"
TECHNIQUE = "relational oracle over recorded paired query calls on fresh equal-seed objects (candidates None / indices / feature rows; candidate subsets; row permutations)"
RULE = ("cases = registry entry x data regime x label regime; per case fresh equal-seed strategies are queried with candidates=None, "
        "candidates=<indices of the unlabelled samples> and (where supported) candidates=<their feature rows>: first-step utilities must "
        "agree (allclose rtol 1e-7 atol 1e-9, same NaN positions) and the selection must agree when the best candidate is unique by a "
        "margin; for the sample-wise scoring strategies: a random candidate subset that does NOT start at the first unlabelled sample "
        "must leave the utilities of the kept candidates unchanged (restriction), and permuting the rows of (X, y) must permute the "
        "utilities (permutation; permutation-invariant models only). Non-trivial = the subset omits an unlabelled sample that precedes a "
        "kept one / the permutation moves >= 2 unlabelled samples; distinct by (entry, relation, data, labels, n, seed).")
ASSUMPTIONS = ["tolerances: rtol 1e-7 (1e-3 for EpistemicUncertaintySampling, which runs a numerical optimiser), atol 1e-6 x utility scale (pairwise-distance rounding for duplicated points)",
               "restriction / permutation are only claimed for the strategies flagged independent / perm in vf/registry.py (list in DESIGN C08)",
               "tolerances rtol 1e-7 / atol 1e-9; selection compared only if the best utility leads by > 1e-6 relative margin"]
REQUIRED_MONITORS = ["C08.representation-equivalence", "C08.restriction", "C08.permutation"]


def gen_cases(tier, seed):
    reps = {"quick": 8, "thorough": 300}[tier]
    cases = []
    for name, e in POOL.items():
        for i in range(max(3, reps // e.slow)):
            cases.append({"id": "%s-%04d" % (name, i), "entry": name, "seed": stable_hash(seed, "C08", name, i), "cmode": "none",
                          "batch": "1", "labels": ["half", "random", "one", "unobserved", "cold"][i % 5],
                          "data": ["normal", "normal", "scaled", "far", "dups"][(i // 5) % 5], "nmax": 12 if tier == "quick" else 24})
    return cases


def required_cells(tier):
    out = []
    for n, e in POOL.items():
        out.append("%s|repr" % n)
        if e.independent:
            out.append("%s|restriction" % n)
        if e.perm:
            out.append("%s|permutation" % n)
    return out


RTOL = {"EpistemicUS": 1e-3, "EpistemicUS_pre": 1e-3}      # numerical optimiser inside the strategy (tolerance ~1e-5)
# row permutation refits the model on permuted rows: scikit-learn's iterative LogisticRegression solver (lbfgs, tol 1e-4)
# stops at a slightly different point (4e-5 relative on badly scaled features); the other relations reuse the same fit
PERM_RTOL = {"US_margin_cost": 1e-3, "EpistemicUS_logreg": 1e-3}


def _close(a, b, rtol=1e-7):
    a, b = np.asarray(a, float), np.asarray(b, float)
    if a.shape != b.shape or not np.array_equal(np.isnan(a), np.isnan(b)):
        return False
    # distances between duplicated points are computed with the ||x||^2 - 2xy + ||y||^2 trick and come out as ~1e-8
    # instead of 0, depending on the batch they are computed in: absolute tolerance relative to the utility scale
    fin = np.abs(a[np.isfinite(a)])
    atol = 1e-6 * max(1.0, float(fin.max()) if fin.size else 1.0)
    return np.allclose(a, b, rtol=rtol, atol=atol, equal_nan=True)


def _unique_best(u):
    v = u[~np.isnan(u)]
    if len(v) < 2:
        return len(v) == 1
    s = np.sort(v)
    return s[-1] - s[-2] > 1e-6 * max(1.0, abs(s[-1]))


def run_case(desc):
    pb.setup()
    miss = missing_from_registry()
    if miss:
        return {"status": "inconclusive", "reason": "exported strategies not in registry: %s" % miss}
    c, why = poolcase.build_in_domain(desc)
    if why:
        return {"status": "skip", "skip_reason": why}
    e = c.entry
    rng = gen.rng_for("c08", desc["seed"])
    comp = e.cls.__name__
    viol = []
    cells = []
    nt_keys = []
    errors = {}

    def q(X, y, cand):
        qs = e.make(c.strategy_seed)
        kw = dict(e.kwargs(c.ctx))
        steps.begin()
        try:
            idx, U = qs.query(X=X.copy(), y=y.copy(), candidates=None if cand is None else np.array(cand, copy=True), batch_size=1,
                              return_utilities=True, **kw)
        finally:
            steps.end()
        return np.asarray(idx), np.asarray(U, float)

    def attempt(name, fn):
        try:
            return fn()
        except steps.StepBudgetExceeded as ex:
            viol.append({"component": comp, "kind": "step-budget-exceeded", "detail": "%s: %s" % (name, ex)})
        except Exception as ex:
            errors[name] = "%s: %s" % (type(ex).__name__, str(ex)[:120])
        return None

    def add(kind, detail):
        if not any(v["kind"] == kind for v in viol):
            viol.append({"component": comp, "kind": kind, "detail": "%s [%s]" % (detail, poolcase.cell_summary(c))})

    unl = c.unl
    A = attempt("none", lambda: q(c.X, c.y, None))
    # the indices of the unlabelled samples, in every second case in an arbitrary order (an index SET is addressed)
    unl_given = unl[gen.rng_for("c08order", desc["seed"]).permutation(len(unl))] if (desc["seed"] >> 7) % 2 else unl
    B = attempt("idx", lambda: q(c.X, c.y, unl_given))
    Cf = attempt("feat", lambda: q(c.X, c.y, c.X[unl])) if e.feat else None
    if A is not None and B is not None:
        contracts.count("C08.representation-equivalence")
        cells.append("%s|repr" % e.name)
        nt_keys.append("%s|repr|%s|%s|n%d|%d" % (e.name, c.data, c.labels, c.n, desc["seed"] % 9973))
        if not _close(A[1][0], B[1][0], RTOL.get(e.name, 1e-7)):
            i = _worst(A[1][0], B[1][0])
            add("utilities-differ:None-vs-indices", "sample %d: %r (None) vs %r (indices)" % (i, A[1][0][i], B[1][0][i]))
        elif _unique_best(A[1][0]) and A[0].tolist() != B[0].tolist():
            add("selection-differs:None-vs-indices", "%s vs %s although the best candidate is unique" % (A[0].tolist(), B[0].tolist()))
    elif (A is None) != (B is None):
        add("raises-in-one-representation-only", "None/indices: %s" % errors)
    if A is not None and Cf is not None:
        contracts.count("C08.representation-equivalence")
        if Cf[1].shape[1] != len(unl) or not _close(A[1][0][unl], Cf[1][0], RTOL.get(e.name, 1e-7)):
            i = _worst(A[1][0][unl], Cf[1][0]) if Cf[1].shape[1] == len(unl) else 0
            add("utilities-differ:None-vs-feature-rows", "candidate %d (sample %d): %r (None) vs %r (feature rows)" % (
                i, int(unl[i]), A[1][0][unl][i], Cf[1][0][i] if Cf[1].shape[1] == len(unl) else None))
        elif _unique_best(A[1][0]) and unl[Cf[0]].tolist() != A[0].tolist():
            add("selection-differs:None-vs-feature-rows", "%s vs %s" % (A[0].tolist(), unl[Cf[0]].tolist()))
    # ---- restriction
    if e.independent and A is not None and len(unl) >= 2:
        k = int(rng.randint(1, len(unl)))
        sub = np.sort(rng.choice(unl[1:], size=min(k, len(unl) - 1), replace=False))   # never contains the first unlabelled sample
        if rng.rand() < 0.5:
            sub = rng.permutation(sub)
        D = attempt("subset", lambda: q(c.X, c.y, sub))
        if D is not None:
            contracts.count("C08.restriction")
            cells.append("%s|restriction" % e.name)
            nt_keys.append("%s|restriction|%s|%s|n%d|k%d|%d" % (e.name, c.data, c.labels, c.n, len(sub), desc["seed"] % 9973))
            if not _close(A[1][0][sub], D[1][0][sub], RTOL.get(e.name, 1e-7)):
                i = _worst(A[1][0][sub], D[1][0][sub])
                add("utilities-differ:candidate-subset", "candidates %s: sample %d has utility %r, but %r with all unlabelled samples as candidates" % (
                    sub.tolist(), int(sub[i]), D[1][0][sub][i], A[1][0][sub][i]))
        elif "subset" in errors:
            add("raises-for-candidate-subset", errors["subset"])
    # ---- permutation
    if e.perm and A is not None:
        perm = rng.permutation(c.n)
        E = attempt("perm", lambda: q(c.X[perm], c.y[perm], None))
        if E is not None:
            contracts.count("C08.permutation")
            cells.append("%s|permutation" % e.name)
            moved = int(np.sum(perm[np.isin(perm, unl)] != np.sort(perm[np.isin(perm, unl)])))
            if moved >= 2:
                nt_keys.append("%s|permutation|%s|%s|n%d|%d" % (e.name, c.data, c.labels, c.n, desc["seed"] % 9973))
            if not _close(E[1][0], A[1][0][perm], PERM_RTOL.get(e.name, RTOL.get(e.name, 1e-7))):
                i = _worst(E[1][0], A[1][0][perm])
                add("utilities-differ:row-permutation", "row %d (original sample %d): %r vs %r" % (i, int(perm[i]), E[1][0][i], A[1][0][perm][i]))
        elif "perm" in errors:
            add("raises-for-permuted-rows", errors["perm"])
    for v in viol:
        v["trigger"] = "any"
    for m in ("C08.representation-equivalence", "C08.restriction", "C08.permutation"):
        contracts.count(m, 0)
    from vf.monitors import contracts as ct
    ct.drain()
    return {"status": "ok", "violations": viol, "nt_keys": nt_keys, "cells": cells, "monitors": contracts.drain_evals(),
            "observed": dict(poolcase.cell_summary(c), relations=[k.split("|")[1] for k in nt_keys], errors=errors)}


def _worst(a, b):
    a, b = np.asarray(a, float), np.asarray(b, float)
    if a.shape != b.shape:
        return 0
    d = np.abs(a - b)
    d[np.isnan(a) != np.isnan(b)] = np.inf
    d[np.isnan(d)] = 0
    return int(np.argmax(d))
