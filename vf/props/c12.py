"""C12 - unlabeled samples do not influence supervised models."""
import numpy as np
from sklearn.linear_model import LinearRegression, LogisticRegression, BayesianRidge, SGDClassifier, SGDRegressor
from sklearn.ensemble import RandomForestClassifier
from sklearn.neural_network import MLPClassifier
from sklearn.naive_bayes import GaussianNB
from sklearn.neighbors import KNeighborsClassifier
from sklearn.tree import DecisionTreeClassifier, DecisionTreeRegressor
from sklearn.gaussian_process import GaussianProcessRegressor

from skactiveml.classifier import ParzenWindowClassifier, SklearnClassifier
from skactiveml.classifier.multiannotator import AnnotatorLogisticRegression
from skactiveml.regressor import (NadarayaWatsonRegressor, NICKernelRegressor, SklearnNormalRegressor,
                                  SklearnRegressor)

from vf import gen
from vf.core import stable_hash
from vf.monitors import contracts, steps

PROPERTY = "C12"
TECHNIQUE = "relational oracle over paired fits (full data vs. labelled subset; perturbed weights / positions of unlabelled rows) recorded on the real estimators"
RULE = ("cases = supervised learner (SklearnClassifier x {GaussianNB, LogisticRegression, DecisionTree, KNN}, SklearnRegressor x "
        "{LinearRegression, DecisionTree}, SklearnNormalRegressor x {BayesianRidge, GP}, PWC with numeric gamma and n_neighbors=None, "
        "NICKernelRegressor, NadarayaWatsonRegressor, AnnotatorLogisticRegression) x missing fraction 0-90% x sample weights "
        "{None, random} ; four fits are compared on training and random query points: (a) all rows, (b) labelled rows only, (c) all rows "
        "with the weights of unlabelled rows replaced by huge / zero values, (d) unlabelled rows moved to other positions (labelled rows "
        "keep their relative order); outputs (predict_proba / predict / mean, std) must agree within rtol 1e-7, and a fit may not raise in "
        "one variant only. Non-trivial = >= 1 unlabelled and >= 2 labelled samples; distinct by (learner, n, n_unlabelled, weights, seed).")
ASSUMPTIONS = ["labelled rows keep their relative order in all variants, so order-dependent third-party solvers see identical arrays",
               "AnnotatorLogisticRegression: a sample is 'unlabelled' iff no annotator labelled it"]
REQUIRED_MONITORS = ["C12.paired-fit-oracle"]

from sklearn.base import BaseEstimator, ClassifierMixin, RegressorMixin
from sklearn.exceptions import NotFittedError


class FailingRegressor(RegressorMixin, BaseEstimator):
    """A wrapped estimator that cannot be fitted: drives the documented fall-back (label mean / std)."""

    def fit(self, X, y, sample_weight=None):
        raise ValueError("cannot be fitted")

    def predict(self, X, return_std=False):
        raise NotFittedError("not fitted")


class FailingPartialFitRegressor(FailingRegressor):
    """... that is an incremental learner: every partial_fit fails as well, the fall-back keeps the statistics of the labels."""

    def partial_fit(self, X, y, sample_weight=None):
        raise ValueError("cannot be fitted")


class FailingClassifier(ClassifierMixin, BaseEstimator):
    def fit(self, X, y, sample_weight=None):
        raise ValueError("cannot be fitted")

    def predict(self, X):
        raise NotFittedError("not fitted")

    def predict_proba(self, X):
        raise NotFittedError("not fitted")


LEARNERS = {
    "skr_fail": ("reg", lambda ml=np.nan: SklearnRegressor(FailingRegressor(), random_state=0, missing_label=ml)),
    "skr_fail_pf": ("reg", lambda ml=np.nan: SklearnRegressor(FailingPartialFitRegressor(), random_state=0, missing_label=ml)),
    "skn_fail": ("preg", lambda ml=np.nan: SklearnNormalRegressor(FailingRegressor(), random_state=0, missing_label=ml)),
    "skc_fail": ("clf_proba", lambda ml=np.nan: SklearnClassifier(FailingClassifier(), classes=[0, 1, 2], random_state=0, missing_label=ml)),
    "sk_nb": ("clf", lambda ml=np.nan: SklearnClassifier(GaussianNB(var_smoothing=1e-3), classes=[0, 1, 2], random_state=0, missing_label=ml)),
    "sk_lr": ("clf", lambda ml=np.nan: SklearnClassifier(LogisticRegression(max_iter=300), classes=[0, 1, 2], random_state=0, missing_label=ml)),
    "sk_tree": ("clf", lambda ml=np.nan: SklearnClassifier(DecisionTreeClassifier(random_state=0), classes=[0, 1, 2], random_state=0, missing_label=ml)),
    "sk_knn": ("clf", lambda ml=np.nan: SklearnClassifier(KNeighborsClassifier(n_neighbors=1), classes=[0, 1, 2], random_state=0, missing_label=ml)),
    "sk_sgd_warm": ("clf", lambda ml=np.nan: SklearnClassifier(SGDClassifier(loss="log_loss", warm_start=True, max_iter=30, tol=None, random_state=0),
                                                    classes=[0, 1, 2], random_state=0, missing_label=ml)),
    "sk_rf_warm": ("clf", lambda ml=np.nan: SklearnClassifier(RandomForestClassifier(n_estimators=3, warm_start=True, random_state=0),
                                                   classes=[0, 1, 2], random_state=0, missing_label=ml)),
    "sk_mlp_warm": ("clf", lambda ml=np.nan: SklearnClassifier(MLPClassifier(hidden_layer_sizes=(4,), warm_start=True, max_iter=40, random_state=0),
                                                    classes=[0, 1, 2], random_state=0, missing_label=ml)),
    "pwc": ("clf", lambda ml=np.nan: ParzenWindowClassifier(metric_dict={"gamma": 0.7}, classes=[0, 1, 2], random_state=0, missing_label=ml)),
    "pwc_prior": ("clf", lambda ml=np.nan: ParzenWindowClassifier(metric_dict={"gamma": 0.2}, class_prior=[1, 2, 0.5], classes=[0, 1, 2], random_state=0, missing_label=ml)),
    "skr_lin": ("reg", lambda ml=np.nan: SklearnRegressor(LinearRegression(), random_state=0, missing_label=ml)),
    "skr_tree": ("reg", lambda ml=np.nan: SklearnRegressor(DecisionTreeRegressor(random_state=0), random_state=0, missing_label=ml)),
    "skr_sgd_pf": ("reg", lambda ml=np.nan: SklearnRegressor(SGDRegressor(random_state=0, max_iter=5, tol=None, eta0=0.01), random_state=0, missing_label=ml)),
    "skn_br": ("preg", lambda ml=np.nan: SklearnNormalRegressor(BayesianRidge(), random_state=0, missing_label=ml)),
    "skn_gp": ("preg", lambda ml=np.nan: SklearnNormalRegressor(GaussianProcessRegressor(alpha=1e-3, random_state=0), random_state=0, missing_label=ml)),
    "nic": ("preg", lambda ml=np.nan: NICKernelRegressor(metric_dict={"gamma": 0.5}, random_state=0, missing_label=ml)),
    "nw": ("preg", lambda ml=np.nan: NadarayaWatsonRegressor(metric_dict={"gamma": 0.5}, random_state=0, missing_label=ml)),
    "annot_lr": ("multi", lambda ml=np.nan: AnnotatorLogisticRegression(classes=[0, 1, 2], max_iter=40, random_state=0, missing_label=ml)),
    # non-default annotator / weight priors: with them the scale of the sample weights no longer cancels
    "annot_lr_prior": ("multi", lambda ml=np.nan: AnnotatorLogisticRegression(classes=[0, 1, 2], max_iter=40, annot_prior_full=2.0, annot_prior_diag=1.5,
                                                                              weights_prior=0.5, random_state=0, missing_label=ml)),
}


def gen_cases(tier, seed):
    reps = {"quick": 16, "thorough": 1000}[tier]
    cases = []
    for name in LEARNERS:
        for i in range(reps):
            s = stable_hash(seed, "C12", name, i)
            cases.append({"id": "%s-%04d" % (name, i), "learner": name, "seed": s, "weights": bool(i % 2),
                          "frac": [0.0, 0.2, 0.5, 0.9][(i // 2) % 4], "sentinel": ["nan", "number"][(i // 8 + s) % 2]})
    return cases


def required_cells(tier):
    return ["learner=%s" % n for n in LEARNERS]


def _outputs(kind, est, Q):
    out = {}
    if kind == "clf_proba":       # predictions of the not-fitted fall-back are random draws: probabilities only
        out["proba"] = np.asarray(est.predict_proba(Q), dtype=float)
    elif kind in ("clf", "multi"):
        out["proba"] = np.asarray(est.predict_proba(Q), dtype=float)
        out["predict"] = np.asarray(est.predict(Q))
    elif kind == "reg":
        out["predict"] = np.asarray(est.predict(Q), dtype=float)
    else:
        m, s = est.predict(Q, return_std=True)
        out["predict"], out["std"] = np.asarray(m, dtype=float), np.asarray(s, dtype=float)
    return out


def _close(a, b):
    if a.dtype.kind in "fc":
        return a.shape == b.shape and np.allclose(a, b, rtol=1e-7, atol=1e-9, equal_nan=True)
    return np.array_equal(a, b)


def run_case(desc):
    steps.install()
    rng = gen.rng_for("c12", desc["seed"])
    name = desc["learner"]
    kind, make0 = LEARNERS[name]
    is_clf = kind in ("clf", "multi", "clf_proba")
    # a reserved number as missing label: the sentinel values must not leak into any statistic of the labels
    ml = np.nan if desc.get("sentinel", "nan") == "nan" else (-1.0 if is_clf else -7.5)

    def make():
        return make0(ml)
    n = int(rng.randint(4, 16))
    d = int(rng.randint(1, 4))
    X = np.round(rng.randn(n, d), 3)
    lab = rng.rand(n) >= desc["frac"]
    if lab.sum() < 2:
        lab[rng.choice(n, size=2, replace=False)] = True
    if kind in ("clf", "multi", "clf_proba"):
        yt = rng.randint(0, 3, size=n).astype(float)
    else:
        yt = np.round(rng.randn(n), 2)
    if kind == "multi":
        A = 3
        y = np.full((n, A), np.nan)
        for i in np.flatnonzero(lab):
            who = rng.rand(A) < 0.6
            if not who.any():
                who[rng.randint(A)] = True
            y[i, who] = np.where(rng.rand(who.sum()) < 0.8, yt[i], rng.randint(0, 3, size=who.sum()))
        rowlab = ~np.isnan(y).all(axis=1)
    else:
        y = np.where(lab, yt, np.nan)
        rowlab = lab
    miss_entries = np.isnan(y)
    if not np.isnan(ml):
        y = np.where(miss_entries, ml, y)
    w = None
    if desc["weights"]:
        w = np.round(rng.rand(*y.shape) + 0.2, 2)
        if (desc["seed"] >> 6) % 4 == 0:
            # all labelled samples carry one and the same weight (not 1): the weights of the unlabelled ones still vary
            w[rowlab] = float(rng.choice([0.5, 2.0, 3.0]))
    Q = np.vstack([X, np.round(rng.randn(5, d), 3)])
    variants = {}
    variants["all"] = (X, y, w)
    variants["labelled-only"] = (X[rowlab], y[rowlab], None if w is None else w[rowlab])
    if w is not None:
        w2 = w.copy()
        w2[~rowlab] = rng.choice([0.0, 1e6], size=w2[~rowlab].shape)
        variants["weights-of-unlabelled-perturbed"] = (X, y, w2)
        if (~rowlab).any():
            w3 = w.copy()
            w3[~rowlab] = rng.choice([np.nan, np.inf, 5.0], size=w3[~rowlab].shape)
            variants["weights-of-unlabelled-not-finite"] = (X, y, w3)
    if w is not None and kind == "multi" and miss_entries.any():
        w4 = w.copy()
        w4[miss_entries] = rng.choice([0.0, 1e6, 3.0], size=int(miss_entries.sum()))
        variants["weights-at-missing-entries-perturbed"] = (X, y, w4)
    # move unlabelled rows to other positions, labelled rows keep their relative order
    order_l = list(np.flatnonzero(rowlab))
    order_u = list(np.flatnonzero(~rowlab))
    rng.shuffle(order_u)
    slots = np.sort(rng.choice(n, size=len(order_l), replace=False))
    perm = np.empty(n, dtype=int)
    perm[slots] = order_l
    perm[np.setdiff1d(np.arange(n), slots)] = order_u
    variants["unlabelled-moved"] = (X[perm], y[perm], None if w is None else w[perm])
    results, errors = {}, {}
    for vn, (Xv, yv, wv) in variants.items():
        est = make()
        steps.begin()
        try:
            if wv is None:
                est.fit(Xv, yv)
            else:
                est.fit(Xv, yv, sample_weight=wv)
            results[vn] = _outputs(kind, est, Q)
        except steps.StepBudgetExceeded as ex:
            errors[vn] = "step budget: %s" % ex
        except Exception as ex:
            errors[vn] = "%s: %s" % (type(ex).__name__, str(ex)[:150])
        finally:
            steps.end()
    if int(rowlab.sum()) >= 3 and kind != "multi":
        first = np.flatnonzero(rowlab)[rng.permutation(int(rowlab.sum()))[: int(rowlab.sum()) // 2]]
        y_part = np.where(np.isin(np.arange(n), first), y, ml)
        est = make()
        steps.begin()
        try:
            if w is None:
                est.fit(X, y_part)
                est.fit(X, y)
            else:
                est.fit(X, y_part, sample_weight=w)
                est.fit(X, y, sample_weight=w)
            results["labels-revealed-in-two-steps-on-one-object"] = _outputs(kind, est, Q)
        except steps.StepBudgetExceeded as ex:
            errors["labels-revealed-in-two-steps-on-one-object"] = "step budget: %s" % ex
        except Exception as ex:
            errors["labels-revealed-in-two-steps-on-one-object"] = "%s: %s" % (type(ex).__name__, str(ex)[:150])
        finally:
            steps.end()
        variants["labels-revealed-in-two-steps-on-one-object"] = None
    # ---- incremental learners: chunks containing unlabelled rows, and a trailing chunk without any label, must leave
    # the same model as the labelled rows of the same chunks alone
    probe = make()
    if hasattr(probe, "partial_fit") and kind != "multi" and int(rowlab.sum()) >= 2:
        h = n // 2

        def pf(chunks_):
            est = make()
            for Xc, yc, wc in chunks_:
                if len(Xc) == 0:
                    continue
                if wc is None:
                    est.partial_fit(Xc, yc)
                else:
                    est.partial_fit(Xc, yc, sample_weight=wc)
            return est

        def cut(mask):
            return [(X[:h][mask[:h]], y[:h][mask[:h]], None if w is None else w[:h][mask[:h]]),
                    (X[h:][mask[h:]], y[h:][mask[h:]], None if w is None else w[h:][mask[h:]])]

        full = np.ones(n, bool)
        tail = (X[~rowlab], y[~rowlab], None if w is None else w[~rowlab]) if (~rowlab).any() else \
            (np.round(rng.randn(2, d), 3), np.full(2, ml), None if w is None else np.ones(2))
        for vn, chunks_ in (("partial_fit:labelled-rows-of-the-chunks", cut(rowlab)),
                            ("partial_fit:chunks-with-unlabelled-rows", cut(full)),
                            ("partial_fit:then-a-chunk-without-labels", cut(rowlab) + [tail])):
            steps.begin()
            try:
                results[vn] = _outputs(kind, pf(chunks_), Q)
            except steps.StepBudgetExceeded as ex:
                errors[vn] = "step budget: %s" % ex
            except Exception as ex:
                errors[vn] = "%s: %s" % (type(ex).__name__, str(ex)[:150])
            finally:
                steps.end()
            variants[vn] = None
    # a variant with non-finite weights may be rejected by input validation: that is not a verdict
    nf = "weights-of-unlabelled-not-finite"
    if nf in errors and any(t in errors[nf] for t in ("NaN", "nan", "inf", "finite")):
        del errors[nf]
        variants.pop(nf, None)
    contracts.count("C12.paired-fit-oracle", len(variants))
    viol = []
    comp = type(make()).__name__ + ("(%s)" % type(make().estimator).__name__ if hasattr(make(), "estimator") else "")
    ctx = "n=%d labelled=%d weights=%s missing_label=%r" % (n, int(rowlab.sum()), desc["weights"], ml)
    if errors and len(errors) < len(variants):
        viol.append({"component": comp, "kind": "fit-raises-in-one-variant-only", "trigger": "any",
                     "detail": "%s: %s; fine for %s" % (ctx, errors, sorted(results))})
    pf_ref = results.get("partial_fit:labelled-rows-of-the-chunks")
    if pf_ref is not None:
        for vn, out in results.items():
            if not vn.startswith("partial_fit:") or vn == "partial_fit:labelled-rows-of-the-chunks":
                continue
            for k in pf_ref:
                if not _close(pf_ref[k], out[k]):
                    viol.append({"component": comp, "kind": "unlabelled-samples-change-%s" % k, "trigger": "any",
                                 "detail": "%s variant '%s' vs the labelled rows of the same chunks: %r vs %r" % (
                                     ctx, vn, np.asarray(out[k][0]).tolist(), np.asarray(pf_ref[k][0]).tolist())})
                    break
    ref = results.get("labelled-only")
    if ref is not None:
        for vn, out in results.items():
            if vn == "labelled-only" or vn.startswith("partial_fit:"):
                continue
            for k in ref:
                if not _close(ref[k], out[k]):
                    i = int(np.argmax(np.abs(ref[k].astype(float) - out[k].astype(float)).reshape(len(Q), -1).max(axis=1))) \
                        if ref[k].dtype.kind == "f" and ref[k].shape == out[k].shape else 0
                    viol.append({"component": comp, "kind": "unlabelled-samples-change-%s" % k, "trigger": "any",
                                 "detail": "%s variant '%s' vs labelled-only: query %d: %r vs %r" % (
                                     ctx, vn, i, np.asarray(out[k][i]).tolist(), np.asarray(ref[k][i]).tolist())})
                    break
    nontrivial = int((~rowlab).sum()) >= 1 and int(rowlab.sum()) >= 2
    return {"status": "ok", "violations": viol[:3], "nontrivial": bool(nontrivial),
            "nt_key": "%s|n%d|u%d|w%d|%d" % (name, n, int((~rowlab).sum()), desc["weights"], desc["seed"] % 997),
            "cells": ["learner=%s" % name], "monitors": contracts.drain_evals(),
            "observed": {"learner": name, "n": n, "unlabelled": int((~rowlab).sum()), "variants": sorted(variants),
                         "errors": errors}}
