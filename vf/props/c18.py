"""C18 - selection primitives pick true optima and well-formed batches."""
import numpy as np

from vf import gen
from vf.core import stable_hash
from vf.monitors import fcontracts as fc

PROPERTY = "C18"
TECHNIQUE = "icontract post-conditions (with argument snapshots) on rand_argmax / rand_argmin / simple_batch + seed-sweep reachability oracle for tied optima"
RULE = ("cases = array of 1-3 dimensions with values from {-inf,-1,0,0.5,1,+inf} or Gaussian, arbitrary NaN pattern, every axis "
        "(and axis=None), batch sizes 1..size+2, both simple_batch methods, integer seeds; contracts: rand_argmax/argmin return a "
        "position whose value equals the exact nan-max/min along the axis; same seed => same result; over 300 seeds every tied optimum "
        "(<= 5 ties) is reached; simple_batch(max): min(batch, #non-NaN) distinct positions, never NaN, values non-increasing, utility "
        "row i == input with picks 0..i-1 NaN-ed; proportional: never a NaN or zero-weight entry, distinct. Non-trivial = >= 2 exact "
        "ties at the optimum or >= 1 NaN; distinct by (ndim, shape, value family, NaN count, batch, method, seed).")
ASSUMPTIONS = ["simple_batch rejects infinite utilities with ValueError (input validation): outside the claim",
               "proportional mode: a request for more samples than positive-weight entries is rejected with ValueError: accepted",
               "rows that are entirely NaN along the reduced axis are not generated (numpy's nanmax is undefined there)"]
REQUIRED_MONITORS = ["rand_argmax", "rand_argmin", "simple_batch", "C18.tie-reachability-oracle"]
_ready = [False]


def _take(a, idx, axis):
    """Value of `a` at the returned index array."""
    if axis is None:
        return a[tuple(np.asarray(idx).tolist())] if a.ndim > 1 else a[int(np.asarray(idx).ravel()[0])]
    return np.take_along_axis(a, np.expand_dims(np.asarray(idx), axis), axis).squeeze(axis)


def setup():
    if _ready[0]:
        return
    import skactiveml.utils._selection as S
    import skactiveml.utils  # noqa
    import skactiveml.pool, skactiveml.classifier, skactiveml.pool.multiannotator, skactiveml.stream  # noqa

    def mk_arg(name, red):
        def post(a, result, old):
            arr = np.asarray(a["a"], dtype=float)
            kw = a.get("argmax_kwargs") or a.get("argmin_kwargs") or {}
            axis = kw.get("axis")
            if arr.ndim == 1 and axis in (0, -1):
                axis = None       # a 1-D array reduced along its only axis: the result is atleast_1d of the flat index
            if arr.size == 0:
                return
            with np.errstate(all="ignore"):
                if axis is None:
                    if np.isnan(arr).all():
                        return
                    best = red(arr)
                    got = _take(arr, result, None)
                    ok = got == best
                else:
                    if np.isnan(arr).all(axis=axis).any():
                        return
                    best = red(arr, axis=axis)
                    got = _take(arr, result, axis)
                    ok = np.array_equal(got, best)
            if not ok:
                fc.record(name, "not-an-exact-optimum", "a=%r axis=%r -> index %r (value %r), optimum %r" % (
                    arr.tolist() if arr.size <= 30 else arr.shape, axis, np.asarray(result).tolist(), np.asarray(got).tolist(), np.asarray(best).tolist()))
        return post

    def snap_sb(a):
        return np.array(a["utilities"], dtype=float, copy=True)

    def post_sb(a, result, old):
        u = old
        bs, ru, method = a.get("batch_size", 1), a.get("return_utilities", False), a.get("method", "max")
        idx, U = (result if ru else (result, None))
        idx = np.asarray(idx)
        nn = int((~np.isnan(u)).sum())
        k = min(bs, nn)
        rows = idx.reshape(len(idx), u.ndim) if u.ndim > 1 else idx.reshape(-1, 1)
        tup = [tuple(r) for r in rows.tolist()]
        where = "utilities=%r batch_size=%d method=%s -> %r" % (u.tolist() if u.size <= 30 else u.shape, bs, method, idx.tolist())
        if len(tup) != k:
            fc.record("simple_batch", "wrong-count", "%d != min(batch, non-NaN)=%d; %s" % (len(tup), k, where))
        if len(set(tup)) != len(tup):
            fc.record("simple_batch", "repeated-position", where)
        try:
            vals = [u[t] for t in tup]
        except Exception:
            fc.record("simple_batch", "position-out-of-range", where)
            return
        if any(np.isnan(v) for v in vals):
            fc.record("simple_batch", "selected-nan", where)
        if method == "max":
            if any(vals[q] < vals[q + 1] for q in range(len(vals) - 1)):
                fc.record("simple_batch", "not-non-increasing", "values %r; %s" % (vals, where))
            if U is not None:
                U = np.asarray(U)
                if U.shape != (k,) + u.shape:
                    fc.record("simple_batch", "utilities-wrong-shape", "%s; %s" % (U.shape, where))
                else:
                    for r in range(min(k, len(tup))):
                        exp = u.copy()
                        for t in tup[:r]:
                            exp[t] = np.nan
                        if not np.array_equal(exp, U[r], equal_nan=True):
                            fc.record("simple_batch", "utility-row-wrong", "row %d = %r, expected %r; %s" % (r, U[r].tolist(), exp.tolist(), where))
                            break
        else:
            if any(v == 0 for v in vals):
                fc.record("simple_batch", "selected-zero-weight", where)
            if U is not None and np.asarray(U).shape == (k,) + u.shape:
                U = np.asarray(U)
                for r in range(min(k, len(tup))):
                    exp = u.copy()
                    for t in tup[:r]:
                        exp[t] = np.nan
                    if not np.array_equal(exp, U[r], equal_nan=True):
                        fc.record("simple_batch", "utility-row-wrong", "row %d (proportional); %s" % (r, where))
                        break

    fc.install(S, "rand_argmax", mk_arg("rand_argmax", np.nanmax))
    fc.install(S, "rand_argmin", mk_arg("rand_argmin", np.nanmin))
    fc.install(S, "simple_batch", post_sb, snapshot=snap_sb)
    _ready[0] = True


def gen_cases(tier, seed):
    n = {"quick": 900, "thorough": 100000}[tier]
    return [{"id": "c18-%05d" % i, "seed": stable_hash(seed, "C18", i), "mode": ["arg", "arg", "batch", "prop", "reach"][i % 5]}
            for i in range(n)]


def required_cells(tier):
    return ["mode=%s" % m for m in ("arg", "batch", "prop", "reach")]


def _array(rng, allow_inf=True):
    nd = int(rng.randint(1, 4))
    shape = tuple(int(x) for x in rng.randint(1, 5, size=nd))
    vals = [-np.inf, -1.0, 0.0, 0.5, 1.0, np.inf] if allow_inf else [-1.0, 0.0, 0.5, 1.0, 2.0]
    fam = ["discrete", "discrete", "near", "gauss"][rng.randint(4)]
    if fam == "gauss":
        a = rng.randn(*shape)
    else:
        a = rng.choice(vals, size=shape).astype(float)
        if fam == "near":     # near-ties: optima that differ in the last bits only
            with np.errstate(all="ignore"):
                a = a - rng.choice([0.0, 1e-9, 1e-12, 2.0 ** -52], size=shape) * np.where(np.isfinite(a), 1.0, 0.0)
    a = a.astype(float)
    a[rng.rand(*shape) < rng.choice([0, 0.3])] = np.nan
    return a, fam


def run_case(desc):
    setup()
    import skactiveml.utils as U
    rng = gen.rng_for("c18", desc["seed"])
    s = int(desc["seed"] % 100003)
    if (desc["seed"] >> 11) % 5 == 0:
        # every legal numpy seed is a legal seed here: the upper half of the 32-bit range, and its end points
        s = [2**31 - 1, 2**31, 2**32 - 1, 2**31 + s, 0][(desc["seed"] >> 14) % 5]
    viol = []
    fc.drain()
    mode = desc["mode"]
    obs = {}
    nontrivial = False
    key = ""
    try:
        if mode == "arg":
            a, fam = _array(rng)
            if np.isnan(a).all():
                a.flat[0] = 0.0
            if (desc["seed"] >> 17) % 5 == 0:
                # integer-typed arrays (counts): unsigned with zeros, signed holding the minimum of their dtype
                kind_i = (desc["seed"] >> 20) % 3
                if kind_i == 0:
                    a, fam = rng.randint(0, 4, size=a.shape).astype(np.uint8), "uint8"
                elif kind_i == 1:
                    a, fam = rng.choice(np.array([-128, -1, 0, 5, 127], dtype=np.int8), size=a.shape), "int8"
                else:
                    a, fam = rng.choice(np.array([np.iinfo(np.int64).min, -3, 0, 7], dtype=np.int64), size=a.shape), "int64"
            axes = [None] + list(range(a.ndim))
            axis = axes[rng.randint(len(axes))]
            if axis is not None and np.isnan(a).all(axis=axis).any():
                axis = None
            kw = {} if axis is None else {"axis": axis}
            i1 = U.rand_argmax(a.copy(), random_state=s, **kw)
            i2 = U.rand_argmax(a.copy(), random_state=s, **kw)
            j1 = U.rand_argmin(a.copy(), random_state=s, **kw)
            j2 = U.rand_argmin(a.copy(), random_state=s, **kw)
            if not np.array_equal(i1, i2) or not np.array_equal(j1, j2):
                viol.append({"component": "rand_argmax/argmin", "kind": "not-reproducible", "detail": "a=%r seed=%d" % (a.tolist(), s)})
            fin = a[~np.isnan(a)]
            nontrivial = bool(np.isnan(a).any() or (fin == fin.max()).sum() >= 2)
            key = "arg|%s|%s|%s|nan%d|%d" % (a.shape, axis, fam, int(np.isnan(a).sum()), s % 997)
            obs = {"a": a.tolist(), "axis": axis, "argmax": np.asarray(i1).tolist(), "argmin": np.asarray(j1).tolist()}
        elif mode == "reach":
            n = int(rng.randint(2, 9))
            a = rng.choice([0.0, 1.0, 2.0], size=n)
            a[rng.rand(n) < 0.2] = np.nan
            if np.isnan(a).all():
                a[0] = 1.0
            for fn, red in ((U.rand_argmax, np.nanmax), (U.rand_argmin, np.nanmin)):
                opt = set(np.flatnonzero(a == red(a)).tolist())
                if len(opt) <= 5:
                    seen = set()
                    for sd in range(300):
                        seen.add(int(fn(a, random_state=sd)[0]))
                        if seen == opt:
                            break
                    fc.count("C18.tie-reachability-oracle")
                    if seen != opt:
                        viol.append({"component": fn.__name__ if hasattr(fn, "__name__") else "rand_arg", "kind": "tied-optimum-unreachable",
                                     "detail": "a=%r optima %s, reached over 300 seeds: %s" % (a.tolist(), sorted(opt), sorted(seen))})
            fin = a[~np.isnan(a)]
            nontrivial = bool((fin == fin.max()).sum() >= 2 or (fin == fin.min()).sum() >= 2)
            key = "reach|%r" % (a.tolist(),)
            obs = {"a": a.tolist()}
        elif mode == "batch":
            a, fam = _array(rng, allow_inf=bool((desc["seed"] >> 13) % 2))      # infinite utilities are ordered like any other
            if (desc["seed"] >> 7) % 16 == 0:
                a[...] = np.nan          # nothing selectable: zero positions, zero utility rows
            bs = int(rng.randint(1, a.size + 3))
            ru = bool(rng.rand() < 0.8)
            # the very same array object for both calls (the primitive must not consume its input), in every third case
            # handed over as a non-contiguous view
            a_in = a.copy()
            if (desc["seed"] >> 9) % 3 == 0 and a.ndim >= 1:
                big = np.full(tuple(2 * k for k in a.shape), np.nan)
                big[tuple(slice(None, None, 2) for _ in a.shape)] = a
                a_in = big[tuple(slice(None, None, 2) for _ in a.shape)]
            elif (desc["seed"] >> 9) % 3 == 1 and a.ndim >= 2:
                # the same values in another memory layout: Fortran order, or an axis-permuted view (swapaxes / moveaxis)
                if (desc["seed"] >> 11) % 2 or a.ndim == 2:
                    a_in = np.asfortranarray(a)
                else:
                    perm = gen.rng_for("c18perm", desc["seed"]).permutation(a.ndim)
                    a_in = np.ascontiguousarray(a.transpose(perm)).transpose(np.argsort(perm))
            a_before = a_in.copy()
            r1 = U.simple_batch(a_in, random_state=s, batch_size=bs, return_utilities=ru)
            r2 = U.simple_batch(a_in, random_state=s, batch_size=bs, return_utilities=ru)
            if not np.array_equal(a_in, a_before, equal_nan=True):
                viol.append({"component": "simple_batch", "kind": "input-utilities-modified", "detail": "a=%r -> %r" % (a_before.tolist(), a_in.tolist())})
            if not np.array_equal(np.asarray(r1[0] if ru else r1), np.asarray(r2[0] if ru else r2)):
                viol.append({"component": "simple_batch", "kind": "not-reproducible", "detail": "a=%r seed=%d" % (a.tolist(), s)})
            fin = a[~np.isnan(a)]
            nontrivial = bool(np.isnan(a).any() or (fin == fin.max()).sum() >= 2)
            if not fin.size:
                got = np.asarray(r1[0] if ru else r1)
                if got.shape != ((0,) if a.ndim == 1 else (0, a.ndim)) or (ru and np.asarray(r1[1]).shape != (0,) + a.shape):
                    viol.append({"component": "simple_batch", "kind": "all-nan-not-empty", "detail": "a shape %s -> %r" % (a.shape, [np.asarray(x).shape for x in (r1 if ru else [r1])])})
            key = "batch|%s|%s|nan%d|b%d|%d" % (a.shape, fam, int(np.isnan(a).sum()), bs, s % 997)
            obs = {"a": a.tolist(), "batch_size": bs, "idx": np.asarray(r1[0] if ru else r1).tolist()}
        else:  # proportional
            n = int(rng.randint(1, 10))
            shape = (n,) if (desc["seed"] >> 8) % 3 else (int(rng.randint(1, 4)), int(rng.randint(1, 4)))     # 2-D weights as well
            n = int(np.prod(shape))
            a = rng.choice([0.0, 0.0, 1.0, 2.0, 0.5], size=shape)
            if (desc["seed"] >> 10) % 5 == 0:
                a = a * 8e307            # finite weights whose sum overflows
            a[rng.rand(*shape) < 0.3] = np.nan
            if np.isnan(a).all() and (desc["seed"] >> 12) % 2:
                a.flat[0] = 1.0          # (otherwise nothing is selectable: an empty batch, as with method='max')
            bs = int(rng.randint(1, n + 2))
            npos = int((a > 0).sum())
            try:
                r = U.simple_batch(a.copy(), random_state=s, batch_size=bs, return_utilities=True, method="proportional")
                obs = {"a": a.tolist(), "batch_size": bs, "idx": np.asarray(r[0]).tolist()}
            except ValueError as ex:
                k = min(bs, int((~np.isnan(a)).sum()))
                if k <= npos and npos > 0:
                    viol.append({"component": "simple_batch", "kind": "exception:ValueError(proportional)",
                                 "detail": "a=%r bs=%d (positive entries %d): %s" % (a.tolist(), bs, npos, str(ex)[:100])})
                obs = {"a": a.tolist(), "batch_size": bs, "rejected": True}
            nontrivial = bool(np.isnan(a).any() or (a == 0).any())
            key = "prop|%r|b%d|%d" % (a.tolist(), bs, s % 997)
    except Exception as ex:
        viol.append({"component": "selection", "kind": "exception:%s" % type(ex).__name__, "detail": "%s mode=%s" % (str(ex)[:200], mode)})
    viol += fc.drain()
    for v in viol:
        v["trigger"] = "any"
    return {"status": "ok", "violations": viol, "nontrivial": nontrivial, "nt_key": key, "cells": ["mode=%s" % mode],
            "monitors": fc.drain_evals(), "observed": obs}
