"""C07 - multi-annotator query returns distinct, available sample-annotator pairs."""
import inspect

import numpy as np

from vf import gen, multiannot, poolcase, triggers
from vf.core import stable_hash
from vf.monitors import contracts, steps
from vf.props import _pool_batch as pb
from vf.registry import POOL, missing_from_registry

from skactiveml.pool.multiannotator import IntervalEstimationThreshold, SingleAnnotatorWrapper
from skactiveml.classifier import ParzenWindowClassifier
from skactiveml.classifier.multiannotator import AnnotatorEnsembleClassifier, AnnotatorLogisticRegression

PROPERTY = "C07"
TECHNIQUE = "post-condition contract on every multi-annotator query: the availability matrix is recomputed by the monitor from (y, candidates, annotators) for the five documented combinations; step-budget monitor for termination"
RULE = ("cases = SingleAnnotatorWrapper around every classification registry entry (and IntervalEstimationThreshold) x label matrix with "
        "arbitrary missing pattern {cold, sparse, half, dense, rows with none/all labels} x candidates {None, indices, feature rows} x "
        "annotators {None, index array, boolean matrix with empty rows} x batch size (up to beyond the number of pairs) x "
        "n_annotators_per_sample {1,2,3, array} x A_perf {None, vector, matrix}; the monitor's own availability matrix decides: result "
        "is an integer array of shape (k, 2) with k = min(batch_size, n_available_pairs), pairwise distinct, every pair available; "
        "utilities have shape (k, rows, n_annotators), NaN at unavailable pairs and at earlier picks; every selected sample except the "
        "last one in order of appearance receives min(n_annotators_per_sample, its available annotators) annotators; an in-domain "
        "exception or a step-budget overrun is a violation. Non-trivial = availability is not rectangular and batch_size >= 2; distinct "
        "by (strategy, inner entry, candidates mode, annotators mode, missing regime, batch, n_per_sample, seed).")
ASSUMPTIONS = ["IntervalEstimationThreshold is documented for fully available annotators only: it is fed fully-available / fully-unavailable samples",
               "inner strategies that are only defined on unlabelled candidates meet aggregate-labelled candidates through the wrapper: recorded as known finding G22, keyed by the registry flag arbitrary_index_ok=False and 'some candidate sample already carries a label'"]
REQUIRED_MONITORS = ["C07.pair-contract"]
CMODES = ["none", "idx", "feat"]
AMODES = ["none", "idx", "bool"]
REGIMES = ["cold", "sparse", "half", "dense", "rows"]


def _inner_entries():
    # entries whose X is a transformed matrix (precomputed kernel) are built by poolcase only
    # (the sub-sampling wrapper is a single-annotator strategy like any other; the parallel wrapper is documented for
    # batch size 1 with feature-row candidates only)
    return [n for n, e in POOL.items() if e.kind in ("clf", "both") and (not e.is_wrapper or n.startswith("Sub_")) and e.x_transform is None]


def gen_cases(tier, seed):
    reps = {"quick": 8, "thorough": 250}[tier]
    cases = []
    for name in _inner_entries():
        e = POOL[name]
        for i in range(max(3, reps // e.slow)):
            s = stable_hash(seed, "C07", name, i)
            cases.append({"strategy": "saw", "entry": name, "seed": s, "cmode": CMODES[i % 3], "amode": AMODES[(i // 3 + s) % 3],
                          "regime": REGIMES[(s >> 3) % len(REGIMES)], "nmax": 9 if tier == "quick" else 14})
    # exhaustive batches from a cold start with index candidates (wrapped strategies whose later utility rows are all
    # -inf / tied, e.g. TypiClust once its clusters are used up)
    for name in _inner_entries():
        for i in range({"quick": 10, "thorough": 40}[tier]):
            s = stable_hash(seed, "C07", "exhaust", name, i)
            cases.append({"strategy": "saw", "entry": name, "seed": s, "cmode": ["idx", "none"][i % 2], "amode": "none", "regime": "cold",
                          "nmax": 9 if tier == "quick" else 14, "bs": "all"})
    for i in range({"quick": 72, "thorough": 1800}[tier]):
        s = stable_hash(seed, "C07", "iet", i)
        cases.append({"strategy": "iet", "entry": "IntervalEstimationThreshold", "seed": s, "cmode": CMODES[i % 3],
                      "amode": AMODES[(i // 3) % 3], "regime": "rows", "nmax": 10, "perm_all": bool((i // 9) % 2)})
    for k, c in enumerate(cases):
        c["id"] = "%s-%s-%04d" % (c["strategy"], c["entry"], k)
    return cases


def required_cells(tier):
    return ["saw|%s" % n for n in _inner_entries()] + ["iet"] + ["cmode=%s" % c for c in CMODES] + ["amode=%s" % a for a in AMODES]


def availability(Y, cmode, cands, amode, annots, n_rows):
    """Monitor's own availability matrix (rows = samples of X, or candidate rows for feature-row candidates)."""
    n, A = Y.shape
    miss = np.isnan(Y)
    if cmode == "feat":
        rows = n_rows
        if amode == "none":
            return np.ones((rows, A), bool)
        if amode == "idx":
            M = np.zeros((rows, A), bool)
            M[:, annots] = True
            return M
        return np.asarray(annots, bool).copy()
    M = np.zeros((n, A), bool)
    if cmode == "none":
        if amode == "none":
            return miss.copy()
        if amode == "idx":
            M[:, annots] = True
            return M
        return np.asarray(annots, bool).copy()
    # index candidates
    if amode == "none":
        M[cands, :] = True
    elif amode == "idx":
        M[np.ix_(cands, annots)] = True
    else:
        M[cands, :] = np.asarray(annots, bool)
    return M


def run_case(desc):
    pb.setup()
    miss = missing_from_registry()
    if miss:
        return {"status": "inconclusive", "reason": "exported strategies not in registry: %s" % miss}
    rng = gen.rng_for("c07", desc["seed"])
    is_iet = desc["strategy"] == "iet"
    n = int(rng.randint(3, desc["nmax"] + 1))
    d = int(rng.randint(1, 3))
    A = int(rng.randint(2, 5))
    X = gen.make_X(rng, n, d, gen.DATA_MODES[rng.randint(len(gen.DATA_MODES))])
    y_true = rng.randint(0, 3, size=n).astype(float)
    classes = [0, 1, 2]
    e = None if is_iet else POOL[desc["entry"]]
    if e is not None and e.binary:
        y_true = np.minimum(y_true, 1)
        classes = [0, 1]
    if is_iet:
        Y = np.full((n, A), np.nan)
        full = rng.rand(n) < 0.5
        for i in np.flatnonzero(full):
            Y[i] = np.where(rng.rand(A) < 0.8, y_true[i], rng.randint(0, 3, size=A))
    else:
        Y = multiannot.make_arbitrary_matrix(rng, y_true, A, classes, desc["regime"])
    cmode, amode = desc["cmode"], desc["amode"]
    if e is not None and cmode == "feat" and not e.feat:
        cmode = "idx"
    # ---- candidates
    if cmode == "none":
        cands = None
        n_rows = n
        rows_idx = np.arange(n)
    elif cmode == "idx":
        if is_iet:
            pool = np.flatnonzero(np.isnan(Y).all(axis=1))
            if len(pool) == 0:
                pool = np.arange(n)
        else:
            pool = np.arange(n)
        k = int(rng.randint(1, len(pool) + 1))
        cands = rng.choice(pool, size=k, replace=False)
        if (desc["seed"] >> 12) % 5 == 0 or desc.get("perm_all"):
            cands = gen.rng_for("c07perm", desc["seed"]).permutation(n)     # every sample, in an arbitrary order
        if rng.rand() < 0.5:          # index arrays are accepted in any order; rows of a boolean matrix follow that order
            cands = np.sort(cands)
        n_rows = n
        rows_idx = cands
    else:
        k = int(rng.randint(1, 6))
        cands = gen.make_X(rng, k, d, "normal")
        n_rows = k
        rows_idx = np.arange(k)
    n_c = n if cmode == "none" else (len(cands))
    # ---- annotators
    if amode == "none":
        annots = None
    elif amode == "idx":
        annots = np.sort(rng.choice(A, size=int(rng.randint(1, A + 1)), replace=False))
    else:
        annots = rng.rand(n_c, A) < 0.5
        if rng.rand() < 0.5 and n_c > 1:
            annots[rng.randint(n_c)] = False          # a candidate without any available annotator
        if not annots.any():
            annots[0, 0] = True
    # IntervalEstimationThreshold with a boolean matrix only keeps samples all of whose annotators are available (DESIGN 7.3
    # no. 34: not judged): the number of pairs is then not the monitor's to predict, availability of what is returned is
    iet_bool = bool(is_iet and amode != "none")        # (an index subset of the annotators restricts in the same way)

    if e is not None and e.domain is not None:
        # documented / third-party domain of the wrapped strategy (e.g. GaussianNB on coinciding rows), judged on the
        # sample-level view the wrapper hands to it
        class _View:
            pass
        v = _View()
        v.X, v.lab, v.data, v.entry = X, ~np.isnan(Y).all(axis=1), None, e
        v.n_labeled = int(v.lab.sum())
        v.n_classes_obs = len(set(Y[~np.isnan(Y)].tolist()))
        try:
            why = e.domain(v)
        except Exception:
            why = None
        if why:
            return {"status": "skip", "skip_reason": why}
    M = availability(Y, cmode, cands, amode, annots, n_rows)
    n_pairs = int(M.sum())
    if n_pairs == 0:
        return {"status": "skip", "skip_reason": "no available pair"}
    bs = int([1, 2, 3, 5, 7, max(1, n_pairs // 2), n_pairs, n_pairs + 2][rng.randint(8)])
    if desc.get("bs") == "all":
        bs = n_pairs + int(rng.randint(0, 3))
    k_exp = min(bs, n_pairs)
    nps = [1, 1, 2, 3, "array"][rng.randint(5)]
    if nps == "array":
        nps = rng.randint(1, 4, size=int(rng.randint(1, 4)))
    aperf = [None, None, "vec", "mat", "binary", "wide", "uint8"][rng.randint(7)]
    kw = dict(X=X.copy(), y=Y.copy(), batch_size=bs, return_utilities=True)
    if cands is not None:
        kw["candidates"] = cands.copy()
        if cmode == "idx" and (desc["seed"] >> 8) % 4 == 0:
            # numpy-style negative indices name the same samples (rows of a boolean matrix keep following the given order)
            neg = gen.rng_for("c07neg", desc["seed"]).rand(len(cands)) < 0.5
            kw["candidates"] = np.where(neg, cands - n, cands)
            contracts.count("C07.negative-candidate-indices")
    if annots is not None:
        kw["annotators"] = annots.copy()
    seed = int(desc["seed"] % 100000)
    if is_iet:
        clf = AnnotatorLogisticRegression(classes=classes, random_state=0, max_iter=15) if seed % 2 else AnnotatorEnsembleClassifier(
            estimators=[("p%d" % a, ParzenWindowClassifier(classes=classes, random_state=0)) for a in range(A)], voting="soft",
            classes=classes, random_state=0)
        qs = IntervalEstimationThreshold(random_state=seed)
        kw["clf"] = clf
        comp = "IntervalEstimationThreshold"
        nps_int = None
    else:
        ctx = {"classes": classes, "ml": np.nan, "kind": "clf"}
        mk_params = inspect.signature(e.make).parameters
        inner = e.make(seed, np.nan, classes=tuple(classes)) if "classes" in mk_params else e.make(seed)
        qs = SingleAnnotatorWrapper(inner, random_state=seed)
        kw.update(e.kwargs(ctx))
        kw["n_annotators_per_sample"] = nps
        if aperf == "vec":
            kw["A_perf"] = np.round(rng.rand(A), 2)
        elif aperf == "mat":
            kw["A_perf"] = np.round(rng.rand(n_c, A), 2)
        elif aperf == "binary":
            kw["A_perf"] = (rng.rand(n_c, A) < 0.5).astype(float)
        elif aperf == "wide":         # scores on a wide scale (the normalisation resolves ranges far beyond this)
            kw["A_perf"] = np.round(rng.rand(n_c, A) * 1e6)
            kw["A_perf"].flat[0], kw["A_perf"].flat[-1] = 0.0, 1e6
        elif aperf == "uint8":        # small unsigned integer scores using the full range of their dtype
            kw["A_perf"] = rng.randint(0, 256, size=A).astype(np.uint8)
            kw["A_perf"][0], kw["A_perf"][-1] = 0, 255
        comp = "SingleAnnotatorWrapper"
        nps_int = nps if isinstance(nps, int) else [int(v) for v in np.asarray(nps).tolist()]
    # sample-level labels seen by the wrapped strategy (for the G22 trigger)
    cand_rows = rows_idx if cmode != "feat" else np.array([], int)
    some_cand_labelled = bool(len(cand_rows) and (~np.isnan(Y[cand_rows])).any(axis=1).any()) if cmode != "feat" else False
    cand_without_annotator = bool((M[rows_idx].sum(axis=1) == 0).any()) if len(rows_idx) else False
    case_info = {"entry": e, "arbitrary_index_ok": None if e is None else e.arbitrary_index_ok, "some_candidate_labelled": some_cand_labelled,
                 "candidate_without_annotator": cand_without_annotator,
                 "inner_is_subsampling_wrapper": bool(e is not None and e.is_wrapper and e.name.startswith("Sub_"))}
    viol = []

    def add(kind, detail):
        if not any(v["kind"] == kind for v in viol):
            v = {"component": comp, "kind": kind, "detail": "%s [inner=%s cmode=%s amode=%s regime=%s n=%d A=%d pairs=%d bs=%d nps=%s A_perf=%s]" % (
                detail, desc["entry"], cmode, amode, desc["regime"], n, A, n_pairs, bs, nps if not hasattr(nps, "tolist") else nps.tolist(), aperf)}
            v["trigger"] = triggers.classify("C07", v, case_info)
            viol.append(v)

    out = None
    steps.begin()
    try:
        out = qs.query(**kw)
    except steps.StepBudgetExceeded as ex:
        add("step-budget-exceeded", str(ex))
    except Exception as ex:
        add("exception:%s" % type(ex).__name__, "%s: %s" % (type(ex).__name__, str(ex)[:200]))
    finally:
        steps.end()
    from vf.monitors import contracts as ct
    ct.drain()
    contracts.count("C07.pair-contract")
    if out is not None:
        try:
            idx, U = out
        except Exception:
            add("malformed-result", repr(out)[:100])
            idx = U = None
        if idx is not None:
            a = np.asarray(idx)
            if not isinstance(idx, np.ndarray) or a.ndim != 2 or a.shape[1] != 2 or not np.issubdtype(a.dtype, np.integer):
                add("indices-not-int-array-of-shape-(k,2)", "type %s shape %s dtype %s" % (type(idx).__name__, a.shape, a.dtype))
            else:
                if len(a) != k_exp and not iet_bool:
                    add("wrong-number-of-pairs", "%d pairs returned, expected min(batch_size, available pairs) = %d" % (len(a), k_exp))
                pairs = [tuple(p) for p in a.tolist()]
                if len(set(pairs)) != len(pairs):
                    add("repeated-pair", "%s" % pairs)
                bad = [p for p in pairs if not (0 <= p[0] < M.shape[0] and 0 <= p[1] < A and M[p[0], p[1]])]
                if bad:
                    add("unavailable-pair-selected", "%s not available; availability %s" % (bad, M.astype(int).tolist()))
                Uf = np.asarray(U, float)
                if Uf.shape != (len(a), M.shape[0], A):
                    add("utilities-wrong-shape", "%s != %s" % (Uf.shape, (len(a), M.shape[0], A)))
                else:
                    for i in range(len(a)):
                        sel = M.copy()
                        for p in pairs[:i]:
                            if 0 <= p[0] < M.shape[0] and 0 <= p[1] < A:
                                sel[p[0], p[1]] = False
                        nanm = np.isnan(Uf[i])
                        if (~nanm & ~M).any():
                            r, c_ = np.argwhere(~nanm & ~M)[0]
                            add("number-at-unavailable-pair", "step %d pair (%d,%d) = %r" % (i, r, c_, Uf[i, r, c_]))
                        if (~nanm & M & ~sel).any():
                            r, c_ = np.argwhere(~nanm & M & ~sel)[0]
                            add("number-at-earlier-pick", "step %d pair (%d,%d) = %r" % (i, r, c_, Uf[i, r, c_]))
                # requested annotators per sample
                if nps_int is not None and not bad and len(set(pairs)) == len(pairs):
                    order = []
                    for p in pairs:
                        if p[0] not in order:
                            order.append(p[0])
                    for rank, s in enumerate(order[:-1]):
                        got = sum(1 for p in pairs if p[0] == s)
                        # documented: entry i of an array is the preference of the i-th ranked sample, the last entry holds
                        # for all later samples
                        req = nps_int if isinstance(nps_int, int) else nps_int[min(rank, len(nps_int) - 1)]
                        want = min(req, int(M[s].sum()))
                        if got < want:
                            add("fewer-annotators-than-requested", "sample %d (rank %d) got %d annotators, requested %d, available %d, and the "
                                "batch continued with other samples: %s" % (s, rank, got, req, int(M[s].sum()), pairs))
                            break
    rect = len({int(x) for x in M.sum(axis=1) if x > 0}) <= 1
    nontrivial = (not rect) and bs >= 2
    cells = ["cmode=%s" % cmode, "amode=%s" % amode, "iet" if is_iet else "saw|%s" % desc["entry"]]
    return {"status": "ok", "violations": viol, "nontrivial": bool(nontrivial),
            "nt_key": "%s|%s|%s|%s|%s|b%d|%s|%d" % (desc["strategy"], desc["entry"], cmode, amode, desc["regime"], bs,
                                                 nps if not hasattr(nps, "tolist") else "arr", desc["seed"] % 9973),
            "cells": cells, "monitors": contracts.drain_evals(),
            "observed": {"strategy": comp, "inner": desc["entry"], "cmode": cmode, "amode": amode, "n": n, "annotators": A, "pairs": n_pairs,
                         "batch_size": bs, "idx": None if out is None else np.asarray(out[0]).tolist()[:8]}}
