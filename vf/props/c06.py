"""C06 - results are reproducible for a fixed random_state."""
import copy

import numpy as np

from vf import gen, models, multiannot, poolcase, streams
from vf.core import stable_hash
from vf.monitors import contracts, steps
from vf.props import _pool_batch as pb
from vf.props import c05
from vf.registry import POOL, missing_from_registry

PROPERTY = "C06"
TECHNIQUE = "paired executions of freshly constructed equal-parameter objects recorded and compared, under perturbation of numpy's process-global generator; a global-generator consumption detector steers extra perturbation runs"
RULE = ("cases = pool strategy (every registry entry in its DEFAULT configuration, +/- SubSampling / Parallel / SingleAnnotator wrapper, "
        "IntervalEstimationThreshold) | stream strategy or budget manager driven through a query/update sequence | classifier fit + "
        "predict on tie-heavy data, not-fitted random prediction branch, sample_proba | regressor sample_y | majority_vote; random_state "
        "given as int or as equal-state RandomState instances; each case runs two fresh twins under different np.random.seed values and "
        "one repeated call on the same object; outputs must be identical (indices exactly, utilities allclose rtol 1e-10). The detector "
        "compares np.random.get_state() before/after each call: calls that consumed the global generator are re-run under 6 (quick) / 30 "
        "(thorough) global seeds instead of 2. Non-trivial = the call can draw random numbers that influence the result (ties, sampling "
        "strategy, clustering, randomised manager) or consumed the global generator; distinct by (family, object, variant, data, seed).")
ASSUMPTIONS = ["consumption of the global generator alone is not a violation (scikit-learn's SVR draws an unused seed from it): only a changed result is",
               "'for all states of the global generator' is sampled"]
REQUIRED_MONITORS = ["C06.twin-comparison", "C06.global-generator-detector", "C06.repeat-comparison"]
WRAPS = ["none", "none", "none", "sub", "par", "saw"]


def gen_cases(tier, seed):
    reps = {"quick": 4, "thorough": 100}[tier]
    cases = []
    for name, e in POOL.items():
        for i in range(max(2, reps // e.slow)):
            s = stable_hash(seed, "C06", name, i)
            cases.append({"family": "pool", "entry": name, "seed": s, "wrap": WRAPS[(i + s) % len(WRAPS)] if i else "none", "prefit": bool((s >> 9) % 2), "weights": False,
                          "nq": 1, "nmax": 12 if tier == "quick" else 20, "rs": ["int", "instance"][(s >> 2) % 2],
                          "data": ["grid", "dups", "const", None][i % 4]})
    # forced tie regimes: cold start / duplicated rows, for every candidate mode the strategy supports
    for name, e in POOL.items():
        for j, (cm, lab, dat, bat) in enumerate([("feat", "cold", None, None), ("idx", "cold", "dups", None), ("none", "half", "dups", "exact"),
                                                 ("feat", "one", "grid", None), ("none", "half", "normal", "exact"), ("none", "random", None, "over")]):
            if cm == "feat" and not e.feat:
                continue
            cases.append({"family": "pool", "entry": name, "seed": stable_hash(seed, "C06", "forced", name, j), "wrap": "none", "prefit": False,
                          "weights": False, "nq": 1, "nmax": 12 if tier == "quick" else 18, "rs": "int", "data": dat, "cmode_forced": cm,
                          "labels": lab, "batch": bat})
        # every strategy once as a used object: it answered the next cycle and a three times denser pool before
        for j in range(3):
            cases.append({"family": "pool", "entry": name, "seed": stable_hash(seed, "C06", "used", name, j), "wrap": "none", "prefit": False,
                          "weights": False, "nq": 1, "nmax": [12, 20, 30][j] if tier == "quick" else 30, "rs": "int",
                          "data": ["normal", None, "normal"][j], "cmode_forced": "none", "labels": ["half", "random", "half"][j],
                          "batch": ["exact", None, "2-3"][j], "rmode": 2, "dense": j != 1})
    for i in range(reps * 3):
        cases.append({"family": "pool", "entry": "IntervalEstimationThreshold", "seed": stable_hash(seed, "C06", "iet", i), "wrap": "iet",
                      "prefit": False, "weights": False, "nq": 1, "nmax": 10, "rs": "int", "data": None})
    for name in streams.STRAT_NAMES:
        for bm in streams.compatible_bms(name)[:3]:
            for i in range(max(1, reps // 2)):
                cases.append({"family": "stream", "name": name, "bm": bm, "seed": stable_hash(seed, "C06", name, bm, i),
                              "rs": ["int", "instance"][i % 2]})
    for name in streams.BM_NAMES:
        for i in range(reps):
            cases.append({"family": "bm", "name": name, "bm": None, "seed": stable_hash(seed, "C06", "bm", name, i), "rs": ["int", "instance"][i % 2]})
    for name in list(models.CLASSIFIERS) + ["sk_unfitted"]:
        for i in range(reps * 2):
            cases.append({"family": "clf", "name": name, "seed": stable_hash(seed, "C06", "clf", name, i), "cold": bool(i % 2)})
    for name in models.PROBABILISTIC_REGRESSORS:
        for i in range(reps):
            cases.append({"family": "reg", "name": name, "seed": stable_hash(seed, "C06", "reg", name, i)})
    for i in range(reps * 4):
        cases.append({"family": "util", "name": "majority_vote", "seed": stable_hash(seed, "C06", "mv", i)})
    for k, c in enumerate(cases):
        c["id"] = "%s-%s-%04d" % (c["family"], c.get("entry") or c.get("name"), k)
    return cases


def required_cells(tier):
    return ["pool|%s" % n for n in POOL] + ["stream|%s" % n for n in streams.STRAT_NAMES] + ["bm|%s" % n for n in streams.BM_NAMES] + \
        ["clf|%s" % n for n in models.CLASSIFIERS] + ["reg|%s" % n for n in models.PROBABILISTIC_REGRESSORS] + ["util|majority_vote"]


def _eq(a, b):
    if isinstance(a, tuple) and isinstance(b, tuple):
        return len(a) == len(b) and all(_eq(x, y) for x, y in zip(a, b))
    a, b = np.asarray(a), np.asarray(b)
    if a.shape != b.shape:
        return False
    if a.dtype.kind in "fc" or b.dtype.kind in "fc":
        return np.allclose(a.astype(float), b.astype(float), rtol=1e-10, atol=1e-12, equal_nan=True)
    return np.array_equal(a, b)


def _gstate():
    s = np.random.get_state()
    return (s[1].tobytes(), s[2], s[3], s[4])


def _run_twins(run, n_global, desc, comp, viol, nontrivial_hint):
    """run() builds a fresh object and returns its output(s)."""
    outs = []
    consumed = False
    for g in range(n_global):
        np.random.seed(1000 + 7919 * g)
        before = _gstate()
        steps.begin()
        try:
            outs.append(run())
        finally:
            steps.end()
        contracts.count("C06.global-generator-detector")
        if _gstate() != before:
            consumed = True
    return outs, consumed


def run_case(desc):
    steps.install()
    fam = desc["family"]
    viol = []
    comp = desc.get("entry") or desc.get("name")
    rng = gen.rng_for("c06", desc["seed"])
    repeat = None
    hint = False
    if fam == "pool":
        pb.setup()
        miss = missing_from_registry()
        if miss:
            return {"status": "inconclusive", "reason": "exported strategies not in registry: %s" % miss}
        if desc["wrap"] == "iet":
            call = multiannot.build_iet_call(desc, rng)
        else:
            c, why = poolcase.build_in_domain(dict(desc, cmode="none" if desc["wrap"] == "saw" else desc.get("cmode_forced")))
            if why:
                return {"status": "skip", "skip_reason": why}
            call = c05._build_call(c, desc, desc["wrap"], rng)
            if call is None:
                return {"status": "skip", "skip_reason": "wrapper not applicable"}
            hint = c.data in ("grid", "dups", "const") or c.n_labeled == 0 or c.entry.selection != "max" or c.entry.lazy
        comp = call["comp"]
        make = call["make"]
        if desc["rs"] == "instance":
            base_make = make

            def make():
                qs = base_make()
                seed = qs.get_params(deep=False).get("random_state")
                if isinstance(seed, (int, np.integer)):
                    qs.set_params(random_state=np.random.RandomState(int(seed)))
                return qs

        def run():
            return make().query(**call["fresh_kw"]())

        def repeat():
            qs = make()
            mode = desc.get("rmode", (desc["seed"] >> 6) % 3)
            if mode == 0:           # equal arguments built anew for the second call
                return qs.query(**call["fresh_kw"]()), qs.query(**call["fresh_kw"]())
            kw = call["fresh_kw"]()  # literally the same call: the same array and model objects are handed over again
            if mode == 2 and not desc["entry"].startswith("ProbCover"):
                # the answer is a function of the constructor parameters and the call arguments: an object that answered a
                # DIFFERENT call before (one more label revealed, another batch size) must answer like a fresh one
                # (ProbCover documents state kept from its first call: update=False)
                a = make().query(**call["fresh_kw"]())
                kw_b = call["fresh_kw"]()
                try:
                    yb = np.array(kw_b["y"], dtype=float, copy=True)
                    miss = np.argwhere(np.isnan(yb))
                    if len(miss):
                        yb[tuple(miss[0])] = 0.0
                    kw_b["y"] = yb
                    if isinstance(kw_b.get("batch_size"), (int, np.integer)):
                        # (the next cycle of a loop: one label more, one sample fewer to pick)
                        kw_b["batch_size"] = kw_b["batch_size"] - 1 if kw_b["batch_size"] > 1 else 2
                    qs.query(**kw_b)
                except Exception:
                    pass
                if (desc.get("dense") or (desc["seed"] >> 9) % 2) and not ({"sample_weight", "utility_weight", "X_eval", "sample_weight_eval", "annotators",
                                                    "A_perf"} & set(kw_b)):
                    # ... and a call on another, three times denser pool (tables or caches sized by an earlier call must not
                    # show in the answer to this one)
                    try:
                        kw_c = dict(kw_b)
                        kw_c.pop("candidates", None)
                        kw_c["X"] = np.vstack([np.asarray(kw_b["X"])] * 3)
                        kw_c["y"] = np.concatenate([np.asarray(kw_b["y"])] * 3)
                        qs.query(**kw_c)
                        contracts.count("C06.used-object-answered-a-denser-pool")
                    except Exception:
                        pass
                return a, qs.query(**kw)
            a = qs.query(**kw)
            return a, qs.query(**kw)
        hint = hint or desc["wrap"] != "none"
    elif fam in ("stream", "bm"):
        n, d = 80, 2
        X = streams.feature_stream(rng, n, d, ["dyadic", "uncertain", "clustered"][desc["seed"] % 3])
        U = np.round(rng.rand(n) * 64) / 64
        chunks = streams.chunking(rng, n, "small")
        seed = int(desc["seed"] % 100000)
        budget = [0.1, 0.3, 0.6][desc["seed"] % 3]
        clf_seed = desc["seed"]

        def mk_rs(off=0):
            return seed + off if desc["rs"] == "int" else np.random.RandomState(seed + off)

        # one budget manager OBJECT that has been used before (a dry query_by_utility creates its fitted state) handed to
        # every twin: each strategy must work on its own copy of it
        shared_bm = None
        if fam == "stream" and desc["bm"] and (desc["seed"] >> 7) % 3 == 0:
            shared_bm = streams.make_bm(desc["bm"], budget, 20, seed + 1)
            try:
                shared_bm.query_by_utility(np.array([0.5]))
            except Exception:
                shared_bm = None

        def run():
            if fam == "bm":
                obj = streams.make_bm(desc["name"], budget, 20, mk_rs())
                clf = None
            else:
                bm = shared_bm if shared_bm is not None else (streams.make_bm(desc["bm"], budget, 20, mk_rs(1)) if desc["bm"] else None)
                obj = streams.make_strategy(desc["name"], None if bm is not None else budget, mk_rs(), bm=bm)
                clf = streams.pwc_clf(gen.rng_for("c06clf", clf_seed), d) if desc["name"] in streams.NEEDS_FREQ else streams.stub_clf()
            hist = []
            for a, b in chunks:
                try:
                    if fam == "bm":
                        idx = obj.query_by_utility(U[a:b])
                        util = U[a:b]
                        streams.update_bm(obj, X[a:b], idx, util)
                    else:
                        idx, util = streams.query_strategy(obj, X[a:b], clf)
                        streams.update_strategy(obj, X[a:b], idx, util)
                except Exception as ex:     # judged by C10; the history ends here for every twin alike
                    hist.append(("raised", type(ex).__name__))
                    break
                hist.append((tuple(int(i) for i in np.asarray(idx).ravel().tolist()), tuple(np.asarray(util, float).round(12).tolist())))
            return tuple(hist)
        hint = True
    elif fam == "clf":
        K = 3
        n = int(rng.randint(3, 10))
        X = gen.make_X(rng, n, 2, ["grid", "dups", "const"][desc["seed"] % 3])
        name = desc["name"]
        multi = False
        if name == "sk_unfitted":
            from sklearn.svm import SVC
            from skactiveml.classifier import SklearnClassifier
            factory = lambda: SklearnClassifier(SVC(probability=True), classes=[0, 1, 2], random_state=7)
        else:
            f, multi, _ = models.CLASSIFIERS[name]
            factory = lambda: f([0, 1, 2], np.nan, None, 7)
        y = rng.randint(0, K, size=n).astype(float)
        y[rng.rand(n) < 0.4] = np.nan
        if desc.get("cold"):
            y[:] = np.nan       # nothing labelled: every prediction is a tie that only the generator decides
        if name == "sk_unfitted":
            y[:] = np.nan
            y[0] = 1.0          # a single class: SVC cannot be fitted -> documented random fallback
        if multi:
            y = np.tile(y[:, None], (1, 3))
            y[rng.rand(n, 3) < 0.3] = np.nan
        Q = np.vstack([X, gen.make_X(rng, 4, 2, "grid")])

        def run():
            clf = factory().fit(X, y)
            out = [np.asarray(clf.predict(Q)), np.asarray(clf.predict_proba(Q), float), np.asarray(clf.predict(Q))]
            if hasattr(clf, "sample_proba"):
                try:
                    out.append(np.asarray(clf.sample_proba(Q, n_samples=3, random_state=5), float))
                except ValueError:
                    pass
            return tuple(out)
        hint = True
    elif fam == "reg":
        n = int(rng.randint(3, 9))
        X = np.round(rng.randn(n, 2), 2)
        y = np.round(rng.randn(n), 2)
        y[rng.rand(n) < 0.3] = np.nan
        if np.isnan(y).all():
            y[0] = 0.5
        Q = np.round(rng.randn(4, 2), 2)

        def run():
            reg = models.REGRESSORS[desc["name"]]().fit(X, y)
            return (np.asarray(reg.sample_y(Q, n_samples=4, random_state=3), float), np.asarray(reg.predict(Q), float))
        hint = True
    else:
        from skactiveml.utils import majority_vote
        n, A = int(rng.randint(2, 8)), int(rng.randint(2, 5))
        Y = rng.randint(0, 2, size=(n, A)).astype(float)
        Y[rng.rand(n, A) < 0.3] = np.nan

        def run():
            return np.asarray(majority_vote(Y.copy(), random_state=11), float)
        hint = True
    try:
        outs, consumed = _run_twins(run, 2, desc, comp, viol, hint)
        if consumed:
            import os
            more, _ = _run_twins(run, 30 if os.environ.get("VERIF_TIER") == "thorough" else 6, desc, comp, viol, hint)
            outs += more
        contracts.count("C06.twin-comparison", len(outs) - 1)
        for k, o in enumerate(outs[1:], 1):
            if not _eq(outs[0], o):
                viol.append({"component": comp, "kind": "result-depends-on-global-generator-or-differs-between-twins", "trigger": "any",
                             "detail": "fresh equal-parameter twins (random_state %s) under np.random.seed #0 vs #%d: %s vs %s (global generator "
                                       "consumed by the call: %s)" % (desc.get("rs", "int"), k, _short(outs[0]), _short(o), consumed)})
                break
        if repeat is not None:
            np.random.seed(5)
            steps.begin()
            try:
                a, b = repeat()
            finally:
                steps.end()
            contracts.count("C06.repeat-comparison")
            if not _eq(a, b):
                how = ["second call with equal arguments built anew", "the literally identical call repeated (same array and model objects)",
                       "fresh object vs an object that answered another call before (one more label, batch size - 1)"][
                    desc.get("rmode", (desc["seed"] >> 6) % 3)] if fam == "pool" else "repeated call"
                viol.append({"component": comp, "kind": "repeated-call-on-same-object-differs", "trigger": "any",
                             "detail": "%s: %s vs %s" % (how, _short(a), _short(b))})
        else:
            contracts.count("C06.repeat-comparison", 0)
    except steps.StepBudgetExceeded as ex:
        viol.append({"component": comp, "kind": "step-budget-exceeded", "trigger": "any", "detail": str(ex)})
    except Exception as ex:
        return {"status": "skip", "skip_reason": "call raises %s (judged by C01/C07/C10/C11)" % type(ex).__name__,
                "monitors": contracts.drain_evals()}
    pb_evals = None
    try:
        from vf.monitors import contracts as ct
        ct.drain()
    except Exception:
        pass
    cell = "%s|%s" % (fam if fam != "pool" else "pool", desc.get("entry") or desc.get("name"))
    return {"status": "ok", "violations": viol, "nontrivial": bool(hint or consumed),
            "nt_key": "%s|%s|%s|%s|%d" % (fam, comp, desc.get("wrap"), desc.get("rs"), desc["seed"] % 99991),
            "cells": [cell], "monitors": contracts.drain_evals(), "counters": {"global_rng_consumed": int(consumed), "runs": len(outs)},
            "observed": {"family": fam, "object": comp, "random_state": desc.get("rs", "int"), "global_generator_consumed": consumed,
                         "twin_runs": len(outs), "first_output": _short(outs[0])}}


def _short(o):
    if isinstance(o, tuple):
        return "(" + ", ".join(_short(x) for x in o[:3]) + (", ..." if len(o) > 3 else "") + ")"
    a = np.asarray(o)
    return str(a.tolist())[:120] if a.size <= 12 else "array%s" % (a.shape,)
