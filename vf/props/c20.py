"""C20 - wrapper strategies are transparent to the strategy they wrap."""
import functools
import inspect
import math
import sys
import threading
import time

import numpy as np

from vf import gen, multiannot, poolcase, triggers
from vf.core import stable_hash
from vf.monitors import contracts, steps
from vf.props import _pool_batch as pb
from vf.registry import POOL, missing_from_registry

import skactiveml.pool as P
from skactiveml.pool.multiannotator import SingleAnnotatorWrapper

PROPERTY = "C20"
TECHNIQUE = "recording proxy on the wrapped strategy INSTANCE (exact arguments / results of every inner call) + offline translation checker; comparison with an unwrapped equal-seed twin; sys.monitoring yield injection for the threading backend with the sequential result as oracle"
RULE = ("cases = wrapper {ParallelUtilityEstimationWrapper, SubSamplingWrapper, SingleAnnotatorWrapper} x compatible inner registry entry x "
        "candidate mode x data/label regime; Parallel: n_jobs in {1,2,3,n_cand,-1}, backends threading / loky, utilities must equal those "
        "of an unwrapped equal-seed twin (rtol 1e-7: chunked pairwise-distance kernels round differently), same selection when the best candidate is unique, no exception the inner strategy "
        "does not raise; with the threading backend a sys.monitoring LINE callback on skactiveml code yields (sleep(0)) at random lines, "
        "5 (quick) / 25 (thorough) schedules per case, every schedule must reproduce the sequential result. SubSampling: the proxy shows the inner strategy was "
        "called once with a duplicate-free subset of the caller's candidates of size min(max_candidates, n) resp. ceil(frac*n); the "
        "returned indices are the translation of the inner result; utilities are the inner utilities on the subset, -inf on the other "
        "candidates, NaN on non-candidates, in the caller's index space (both exclude_non_subsample settings, int and float "
        "max_candidates). SingleAnnotatorWrapper: the distinct samples of the returned pairs, in order of first appearance, are a prefix "
        "of the index sequence the inner strategy returned. Non-trivial = proper sub-sample with removed rows / n_jobs != 1 with >= 2 "
        "non-empty chunks / >= 2 samples in the returned pairs; distinct by (wrapper, inner, settings, data, seed).")
ASSUMPTIONS = ["the parallel wrapper hands candidate chunks as feature rows to the inner strategy: inner strategies must support feature-row candidates and score samples independently",
               "SubSamplingWrapper(exclude_non_subsample=True) with feature-row candidates needs >= 1 labelled sample (it removes all unlabelled rows)",
               "selection is only compared when the best candidate is unique (the wrapper breaks ties with its own generator)"]
REQUIRED_MONITORS = ["C20.parallel-twin-oracle", "C20.subsampling-translation-checker", "C20.saw-order-checker", "C20.schedule-perturbation"]
# not claimed for the parallel wrapper: strategies whose utilities consume random numbers (bootstrap in EMCM; random
# tie-breaking of the committee members' hard votes in QBC vote_entropy / variation_ratios) - evaluating the candidates in
# chunks legitimately changes the random stream, so equal-seed utilities are not comparable
PAR_OK = [n for n, e in POOL.items() if e.independent and e.feat and e.selection == "max" and not e.is_wrapper
          and n not in ("EMCM", "QBC_VE_list", "QBC_VR_list")]
# wrapped strategies that consume random numbers before their own selection step: under exact ties their tie-break uses a
# later draw than the wrapper's, so the selection is only compared when the best candidate is unique
TIE_RNG_DIFFERS = {"CostEmbeddingAL", "CostEmbeddingAL_cm", "GreedySamplingX", "GreedySamplingX_manhattan", "GreedySamplingTarget",
                   "GreedySamplingTarget_GSy", "GreedySamplingTarget_nGSx3"}
SUB_OK = [n for n, e in POOL.items() if e.selection != "rt" and not n.startswith("Badge") and not e.is_wrapper]
SAW_OK = [n for n, e in POOL.items() if e.kind in ("clf", "both") and e.arbitrary_index_ok and not e.is_wrapper]


def gen_cases(tier, seed):
    reps = {"quick": 4, "thorough": 60}[tier]
    cases = []
    for name in PAR_OK:
        e = POOL[name]
        for i in range(max(2, reps // e.slow)):
            s = stable_hash(seed, "C20", "par", name, i)
            cases.append({"wrapper": "par", "entry": name, "seed": s, "n_jobs": [-1, 2, 3, "ncand", 1][(i + s) % 5],
                          "backend": ["threading", "threading", "loky", "threading"][(s >> 3) % 4] if tier == "thorough" else "threading",
                          "cmode": ["none", "idx", "feat"][(s >> 6) % 3], "perturb": i % 2 == 1, "nmax": 10 if tier == "quick" else 18})
    for name in SUB_OK:
        e = POOL[name]
        for i in range(max(2, reps // e.slow)):
            s = stable_hash(seed, "C20", "sub", name, i)
            cases.append({"wrapper": "sub", "entry": name, "seed": s, "max_candidates": [0.5, 3, 0.3, 1, 1.0, 2, 0.1, 0.7][i % 8],
                          "exclude": bool((s >> 3) % 2), "cmode": None, "nmax": 12 if tier == "quick" else 22})
    # pool sizes at which the float product n * fraction exceeds the exact one (25 * 0.28 = 7.000000000000001, 50 * 0.14): cold start,
    # all samples are candidates
    for name in ("RandomSampling", "CoreSet", "GreedySamplingX", "TypiClust"):
        for j, (mc, n) in enumerate([(0.28, 25), (0.14, 50), (0.28, 25)]):
            cases.append({"wrapper": "sub", "entry": name, "seed": stable_hash(seed, "C20", "subfrac", name, j), "max_candidates": mc,
                          "exclude": bool(j % 2), "cmode": "none", "labels": "cold", "n": n, "nmax": 12 if tier == "quick" else 22})
    for name in SAW_OK:
        e = POOL[name]
        for i in range(max(2, reps // e.slow)):
            cases.append({"wrapper": "saw", "entry": name, "seed": stable_hash(seed, "C20", "saw", name, i), "cmode": "none",
                          "nmax": 9 if tier == "quick" else 14})
    for k, c in enumerate(cases):
        c["id"] = "%s-%s-%04d" % (c["wrapper"], c["entry"], k)
    return cases


def required_cells(tier):
    return ["par|%s" % n for n in PAR_OK] + ["sub|%s" % n for n in SUB_OK] + ["saw|%s" % n for n in SAW_OK]


def install_proxy(inner, log):
    """Recording proxy on the instance: call event before invoking, return / raise event after."""
    orig = inner.query          # bound method (class-level C01 contract wrapper included)

    @functools.wraps(orig)
    def proxy(*a, **k):
        ba = inspect.signature(orig).bind(*a, **k)
        rec = {"args": {kk: (np.array(v, copy=True) if isinstance(v, np.ndarray) else v) for kk, v in ba.arguments.items()},
               "thread": threading.get_ident()}
        log.append(rec)
        try:
            out = orig(*a, **k)
        except BaseException as ex:
            rec["raised"] = "%s: %s" % (type(ex).__name__, str(ex)[:100])
            raise
        rec["result"] = out
        return out
    inner.query = proxy
    return proxy


def _unique_best(u):
    v = np.asarray(u, float)
    v = v[~np.isnan(v)]
    if len(v) < 2:
        return len(v) == 1
    s = np.sort(v)
    return s[-1] - s[-2] > 1e-6 * max(1.0, abs(s[-1]))


# ---------------------------------------------------------------- yield injection (threading backend)
class YieldInjector:
    TOOL = 4

    def __init__(self, p, seed):
        self.p = p
        self.rng = np.random.RandomState(seed)
        self.lock = threading.Lock()
        self.trace = []
        self.n = 0

    def _on_line(self, code, line):
        with self.lock:
            r = self.rng.rand()
            self.n += 1
            if len(self.trace) < 4000:
                self.trace.append(threading.get_ident())
        if r < self.p:
            time.sleep(0)

    def __enter__(self):
        mon = sys.monitoring
        mon.use_tool_id(self.TOOL, "verif-yield")
        mon.register_callback(self.TOOL, mon.events.LINE, self._on_line)
        self.codes = []
        for code in list(steps._seen):
            if "/skactiveml/pool/" in code.co_filename or code.co_filename.endswith("skactiveml/base.py"):
                try:
                    mon.set_local_events(self.TOOL, code, mon.events.LINE)
                    self.codes.append(code)
                except Exception:
                    pass
        return self

    def __exit__(self, *a):
        mon = sys.monitoring
        for code in self.codes:
            try:
                mon.set_local_events(self.TOOL, code, 0)
            except Exception:
                pass
        mon.register_callback(self.TOOL, mon.events.LINE, None)
        mon.free_tool_id(self.TOOL)

    def interleaving(self):
        """hash of the thread-id sequence at the instrumented lines, and number of thread switches"""
        ids = {}
        seq = [ids.setdefault(t, len(ids)) for t in self.trace]
        switches = sum(1 for a, b in zip(seq, seq[1:]) if a != b)
        return hash(tuple(seq)), switches, len(ids)


def run_par(desc, c, e, add, rng):
    if c.cmode == "idx_any":
        return None
    seed = c.strategy_seed
    kw_models = lambda: dict(e.kwargs(c.ctx))
    base = dict(X=c.X, y=c.y, candidates=c.candidates, batch_size=1, return_utilities=True)
    # per-sample weights of the training data (when the strategy takes them): candidates that are samples of X keep their
    # weights and labels inside the wrapper
    import inspect
    w_par = None
    try:
        if "sample_weight" in inspect.signature(type(e.make(seed)).query).parameters and (desc["seed"] >> 17) % 2:
            w_par = np.round(gen.rng_for("c20w", desc["seed"]).rand(len(c.X)) * 3 + 0.2, 2)
    except (TypeError, ValueError):
        pass

    def call(qs):
        kw = dict(kw_models(), X=base["X"].copy(), y=base["y"].copy(), batch_size=1, return_utilities=True,
                  candidates=None if c.candidates is None else c.candidates.copy())
        if w_par is not None:
            kw["sample_weight"] = w_par.copy()
        steps.begin()
        try:
            return qs.query(**kw)
        finally:
            steps.end()

    try:
        ref = call(e.make(seed))
    except steps.StepBudgetExceeded:
        raise
    except Exception as ex:
        return {"skip": "inner strategy itself raises %s" % type(ex).__name__}
    n_cand = len(c.cset)
    nj = n_cand if desc["n_jobs"] == "ncand" else desc["n_jobs"]
    if desc["backend"] != "threading" and (nj == -1 or nj > 3):
        nj = 3          # process pools: a few workers are enough, 16 shards x 16 processes only load the machine
    pd = {"backend": desc["backend"]}

    def wrapped_call(log=None):
        inner = e.make(seed)
        if log is not None:
            install_proxy(inner, log)
        qs = P.ParallelUtilityEstimationWrapper(inner, n_jobs=nj, parallel_dict=dict(pd), random_state=seed)
        return call(qs)

    log = None
    from vf.monitors import contracts as ct
    ct.drain()
    try:
        out = wrapped_call(None)
    except steps.StepBudgetExceeded:
        raise
    except Exception as ex:
        if desc["backend"] != "threading" and type(ex).__name__ in ("BrokenProcessPool", "TerminatedWorkerError", "PicklingError"):
            # the process pool of the third-party backend died (loaded machine): infrastructure, not a verdict
            return {"skip": "loky process pool failure: %s" % type(ex).__name__}
        add("wrapper-raises-but-inner-does-not:%s" % type(ex).__name__, "n_jobs=%s backend=%s n_cand=%d: %s" % (nj, desc["backend"], n_cand, str(ex)[:150]))
        return {"nontrivial": False}
    contracts.count("C20.parallel-twin-oracle")
    u_ref, u_out = np.asarray(ref[1], float)[0], np.asarray(out[1], float)[0]
    from vf.props.c08 import RTOL, _close
    if u_ref.shape != u_out.shape or not _close(u_ref, u_out, RTOL.get(e.name, 1e-7)):
        i = int(np.nanargmax(np.abs(np.nan_to_num(u_ref) - np.nan_to_num(u_out)))) if u_ref.shape == u_out.shape else -1
        add("parallel-utilities-differ-from-inner", "n_jobs=%s backend=%s: position %d: %r (wrapper) vs %r (inner)" % (
            nj, desc["backend"], i, u_out[i] if i >= 0 else u_out.shape, u_ref[i] if i >= 0 else u_ref.shape))
    elif (_unique_best(u_ref) or (e.name not in TIE_RNG_DIFFERS and np.array_equal(u_ref, u_out, equal_nan=True))) \
            and np.asarray(out[0]).tolist() != np.asarray(ref[0]).tolist():
        # near-ties (utilities equal within the tolerance but not bit for bit, e.g. round-off noise around 0 that depends
        # on the chunk a candidate is scored in) leave the arg max undetermined: the selection is compared when the best
        # candidate is unique or the utilities agree exactly
        # equal seeds: the wrapper breaks ties with the first draw of its derived generator, exactly as a wrapped strategy
        # that draws nothing before its own selection
        fin = ~np.isnan(u_ref)
        add("parallel-selection-differs-from-inner", "%s vs %s (unique best: %s); utilities wrapper %r inner %r" % (
            np.asarray(out[0]).tolist(), np.asarray(ref[0]).tolist(), _unique_best(u_ref), u_out[fin].tolist(), u_ref[fin].tolist()))
    # ---- the same wrapper object after a nested parameter of the wrapped strategy was changed through set_params
    US_METHODS = ["least_confident", "margin_sampling", "entropy"]
    inner0 = e.make(seed)
    if type(inner0).__name__ == "UncertaintySampling" and inner0.get_params().get("method") in US_METHODS \
            and inner0.get_params().get("cost_matrix") is None:      # (entropy is not defined with a cost matrix)
        other = [m for m in US_METHODS if m != inner0.get_params()["method"]][int(desc["seed"] % 2)]
        try:
            qs2 = P.ParallelUtilityEstimationWrapper(e.make(seed), n_jobs=nj, parallel_dict=dict(pd), random_state=seed)
            call(qs2)
            qs2.set_params(query_strategy__method=other)
            got = call(qs2)
            want = call(e.make(seed).set_params(method=other))
            contracts.count("C20.parallel-twin-oracle")
            if not _close(np.asarray(want[1], float)[0], np.asarray(got[1], float)[0], 1e-7):
                add("parallel-wrapper-ignores-changed-inner-parameter", "after set_params(query_strategy__method=%r) the wrapper's utilities "
                    "differ from those of the wrapped strategy with that method" % other)
        except steps.StepBudgetExceeded:
            raise
        except Exception as ex:
            if not (desc["backend"] != "threading" and type(ex).__name__ in ("BrokenProcessPool", "TerminatedWorkerError", "PicklingError")):
                add("wrapper-raises-after-set_params:%s" % type(ex).__name__, str(ex)[:150])
    chunks = 0
    # the jobs work on copies of the strategy, so the chunk calls are observed through the class-level query contract
    ct.drain()
    try:
        wrapped_call(None)
    except Exception:
        pass
    inner_recs = [r for r in ct.drain() if r["cls"] == e.cls.__name__ and "n_cand" in r]
    if desc["backend"] == "threading" and nj != 1:
        chunks = len(inner_recs)
        sizes = [r["n_cand"] for r in inner_recs]
        if any(s == 0 for s in sizes):
            add("inner-called-with-empty-chunk", "chunk sizes %s" % sizes)
        if sum(sizes) != n_cand and nj != 1:
            add("chunks-do-not-partition-the-candidates", "chunk sizes %s, candidates %d" % (sizes, n_cand))
    # ---- schedule perturbation
    n_sched = 0
    inter = set()
    max_switches = 0
    if desc["perturb"] and desc["backend"] == "threading" and nj not in (1,) and n_cand >= 2:
        import os
        K = 25 if os.environ.get("VERIF_TIER") == "thorough" else 5
        for k in range(K):
            with YieldInjector(p=[0.05, 0.3, 0.8][k % 3], seed=int(desc["seed"] % 100000) + k) as yi:
                try:
                    o2 = wrapped_call(None)
                except steps.StepBudgetExceeded:
                    raise
                except Exception as ex:
                    add("raises-under-perturbed-schedule:%s" % type(ex).__name__, "schedule %d: %s" % (k, str(ex)[:120]))
                    break
            h, sw, nthreads = yi.interleaving()
            inter.add(h)
            max_switches = max(max_switches, sw)
            n_sched += 1
            contracts.count("C20.schedule-perturbation")
            u2 = np.asarray(o2[1], float)[0]
            if u2.shape != u_out.shape or not np.array_equal(u2, u_out, equal_nan=True):
                add("result-depends-on-thread-schedule", "schedule %d (%d thread switches): utilities differ from the unperturbed run" % (k, sw))
                break
    return {"nontrivial": nj != 1 and chunks >= 2 or (desc["backend"] != "threading" and nj != 1),
            "counters": {"schedules": n_sched, "distinct_interleavings": len(inter), "max_thread_switches": max_switches, "chunks": chunks}}


def run_sub(desc, c, e, add, rng):
    mc, excl = desc["max_candidates"], desc["exclude"]
    if excl and c.cmode == "feat" and c.n_labeled == 0:
        return {"skip": "exclude_non_subsample with feature rows needs a labelled sample"}
    seed = c.strategy_seed
    inner = e.make(seed)
    log = []
    install_proxy(inner, log)
    qs = P.SubSamplingWrapper(inner, max_candidates=mc, exclude_non_subsample=excl, random_state=seed)
    kw = dict(e.kwargs(c.ctx), X=c.X.copy(), y=c.y.copy(), batch_size=c.bs, return_utilities=True,
              candidates=None if c.candidates is None else c.candidates.copy())
    steps.begin()
    try:
        out = qs.query(**kw)
    except steps.StepBudgetExceeded:
        raise
    except Exception as ex:
        # does the inner strategy raise on the very same inner call?
        if log and "raised" in log[-1]:
            return {"skip": "inner strategy raises %s on the sub-sample" % log[-1]["raised"][:40]}
        add("wrapper-raises:%s" % type(ex).__name__, "max_candidates=%r exclude=%s: %s" % (mc, excl, str(ex)[:150]))
        return {"nontrivial": False}
    finally:
        steps.end()
    contracts.count("C20.subsampling-translation-checker")
    n_cand = len(c.cset)
    # documented size of the sub-sample, in exact arithmetic on the decimal literal (0.3 means 3/10): float products such
    # as 25 * 0.28 = 7.000000000000001 must not add a candidate
    from fractions import Fraction
    size = min(mc, n_cand) if isinstance(mc, int) else min(math.ceil(Fraction(repr(mc)) * n_cand), n_cand)
    idx, U = np.asarray(out[0]), np.asarray(out[1], float)
    if len(log) != 1:
        add("inner-not-called-exactly-once", "%d calls" % len(log))
        return {"nontrivial": False}
    rec = log[0]
    ia = rec["args"]
    icand = ia.get("candidates")
    iidx, iU = rec["result"]
    iidx, iU = np.asarray(iidx), np.asarray(iU, float)
    feat = c.cmode == "feat"
    cands_sorted = np.array(sorted(c.cset))
    # ---- which caller candidates did the inner strategy get?
    T = None
    if not excl:
        if feat:
            icand = np.asarray(icand)
            if icand.ndim != 2 or len(icand) != size:
                add("subsample-wrong-size", "inner got %s feature rows, documented size %d" % (icand.shape, size))
            else:        # every inner row must be a caller row; identify by utilities below
                rows = [tuple(r) for r in np.asarray(c.candidates).tolist()]
                if any(tuple(r) not in rows for r in icand.tolist()):
                    add("subsample-not-a-subset", "inner feature rows are not rows of the caller's candidates")
        else:
            icand = np.asarray(icand)
            T = icand
            if len(icand) != size:
                add("subsample-wrong-size", "inner got %d index candidates, documented size %d (max_candidates=%r, %d candidates)" % (len(icand), size, mc, n_cand))
            if len(set(icand.tolist())) != len(icand):
                add("subsample-has-duplicates", "%s" % icand.tolist())
            if not set(icand.tolist()) <= c.cset:
                add("subsample-not-a-subset", "%s not in %s" % (sorted(set(icand.tolist()) - c.cset), sorted(c.cset)))
            if not np.array_equal(np.asarray(ia["X"]), c.X):
                add("inner-X-altered", "exclude_non_subsample=False but inner X differs")
    else:
        iX, iy = np.asarray(ia["X"]), np.asarray(ia["y"], float)
        if feat:
            if len(iX) != c.n_labeled or np.isnan(iy).any():
                add("excluded-rows-wrong", "inner X has %d rows (%d labelled expected) / NaN labels %d" % (len(iX), c.n_labeled, int(np.isnan(iy).sum())))
            if np.asarray(icand).shape[0] != size:
                add("subsample-wrong-size", "inner got %s feature rows, documented size %d" % (np.asarray(icand).shape, size))
        else:
            # recover the sub-sample in the caller's index space: the wrapper reports -inf for candidates outside of it
            row0 = U[0] if len(U) else np.array([])
            if np.isneginf(iU).any() or not len(U):
                T = None      # the inner strategy itself reports -inf (e.g. TypiClust): the sub-sample cannot be read off the output
            else:
                T = np.array([j for j in cands_sorted if not (np.isneginf(row0[j]))], int)
            n_lab_cand = int(sum(1 for j in c.cset if c.lab[j]))
            if T is not None and len(T) == size:
                # candidates may be labelled samples (arbitrary index sets): the reduced training set is the union
                exp_rows = len(set(np.flatnonzero(c.lab).tolist()) | set(T.tolist()))
                exp_unl = int((~c.lab[T]).sum())
            elif n_lab_cand == 0:
                exp_rows, exp_unl = c.n_labeled + size, size
            else:
                exp_rows = exp_unl = None
            if exp_rows is not None and (len(iX) != exp_rows or int(np.isnan(iy).sum()) != exp_unl):
                add("subsample-wrong-size", "inner (X rows %d, unlabelled %d), expected %d rows (labelled samples and the sub-sample of %d) with %d unlabelled" % (
                    len(iX), int(np.isnan(iy).sum()), exp_rows, size, exp_unl))
                T = None
    # ---- outputs in the caller's index space
    ncols = len(c.candidates) if feat else c.n
    k = min(c.bs, size)
    if U.shape != (len(idx), ncols):
        add("utilities-wrong-shape", "%s vs (%d, %d)" % (U.shape, len(idx), ncols))
        return {"nontrivial": False}
    cmask = np.zeros(ncols, bool)
    cmask[list(c.cset)] = True
    for i in range(len(U)):
        if (~np.isnan(U[i]) & ~cmask).any():
            add("number-at-non-candidate", "row %d col %d" % (i, int(np.flatnonzero(~np.isnan(U[i]) & ~cmask)[0])))
            break
    if not feat and T is not None and len(U):
        Tset = set(int(t) for t in np.asarray(T).tolist())
        other = [j for j in c.cset if j not in Tset]
        if other and not np.isneginf(U[:, other]).all():
            add("non-subsample-candidate-not-minus-inf", "candidates %s outside the sub-sample: %r" % (other[:5], U[0, other][:5].tolist()))
        if not excl:
            # utilities on the subset must be the inner utilities, indices identical
            if iU.shape == U.shape and not np.allclose(U[:, sorted(Tset)], iU[:, sorted(Tset)], rtol=0, atol=0, equal_nan=True):
                add("utilities-differ-from-inner-on-subsample", "%r vs %r" % (U[0, sorted(Tset)][:5].tolist(), iU[0, sorted(Tset)][:5].tolist()))
            if np.asarray(iidx).tolist() != idx.tolist():
                add("indices-are-not-the-inner-result", "%s vs inner %s" % (idx.tolist(), np.asarray(iidx).tolist()))
        else:
            # inner index space: rows of X[S], S = sorted(labelled + sub-sample); inner candidates = unlabelled rows in order
            S = np.array(sorted(set(np.flatnonzero(c.lab).tolist()) | Tset), int) if len(Tset) == size else None
            if S is not None and len(S) == iU.shape[1]:
                trans = S[np.asarray(iidx, int)]
                if trans.tolist() != idx.tolist():
                    add("indices-are-not-the-translated-inner-result", "%s vs translated inner %s" % (idx.tolist(), trans.tolist()))
                back = np.full(U.shape, np.nan)
                back[:, S] = iU
                sub = sorted(Tset)
                if not np.allclose(U[:, sub], back[:, sub], rtol=0, atol=0, equal_nan=True):
                    add("utilities-differ-from-inner-on-subsample", "%r vs %r" % (U[0, sub][:5].tolist(), back[0, sub][:5].tolist()))
            elif len(Tset) != size:
                add("subsample-wrong-size", "%d candidates are not -inf, documented size %d" % (len(Tset), size))
        if not set(idx.tolist()) <= Tset:
            add("selected-outside-the-subsample", "%s vs sub-sample %s" % (idx.tolist(), sorted(Tset)))
    if feat and len(U):
        fin = ~np.isneginf(U[0]) & ~np.isnan(U[0])
        if int(fin.sum()) != size and not np.isneginf(iU).any():
            add("subsample-wrong-size", "%d feature-row candidates are not -inf, documented size %d" % (int(fin.sum()), size))
        if not set(idx.tolist()) <= set(np.flatnonzero(~np.isneginf(U[0])).tolist()):
            add("selected-outside-the-subsample", "%s" % idx.tolist())
        if iU.shape[1] == int(fin.sum()) and not np.allclose(np.sort(U[0][fin]), np.sort(iU[0][~np.isnan(iU[0])]) if (~np.isnan(iU[0])).sum() == fin.sum() else np.sort(U[0][fin]), rtol=0, atol=0):
            add("utilities-differ-from-inner-on-subsample", "feature rows")
    if len(idx) != k:
        add("wrong-batch-length", "%d vs min(batch_size, sub-sample)=%d" % (len(idx), k))
    return {"nontrivial": size < n_cand and (excl or True)}


def run_saw(desc, c, e, add, rng):
    seed = c.strategy_seed
    A = int(rng.randint(2, 5))
    Y = multiannot.make_label_matrix(rng, c.y_true, c.lab, A, c.classes)
    inner = e.make(seed)
    log = []
    install_proxy(inner, log)
    qs = SingleAnnotatorWrapper(inner, random_state=seed)
    n_pairs = int(np.isnan(Y).sum())
    if n_pairs == 0:
        return {"skip": "no missing pair"}
    bs = int([1, 2, 3, 5, n_pairs][rng.randint(5)])
    nps = int(rng.randint(1, 4))
    kw = dict(e.kwargs(c.ctx), X=c.X.copy(), y=Y.copy(), batch_size=bs, n_annotators_per_sample=nps, return_utilities=True)
    cand_idx = None
    if (desc["seed"] >> 15) % 2:
        # candidates as an index array in arbitrary order (every annotator of a candidate sample is then available)
        pool_idx = np.flatnonzero(~c.lab)
        if len(pool_idx):
            cand_idx = rng.permutation(pool_idx)[: int(rng.randint(1, len(pool_idx) + 1))]
            kw["candidates"] = cand_idx.copy()
    # annotator performances only rank the annotators of a sample; whatever their scale (incl. exact 0 / 1 entries of a
    # binary expertise matrix) they must not reorder the samples
    aperf = [None, "vec", "mat", "binary", "binary", "wide", "uint8"][rng.randint(7)]
    n_rows_perf = c.n if cand_idx is None else len(cand_idx)      # per-candidate performances: one row per candidate
    if aperf == "vec":
        kw["A_perf"] = np.round(rng.rand(A), 2)
    elif aperf == "mat":
        kw["A_perf"] = np.round(rng.rand(n_rows_perf, A) * rng.choice([1.0, 10.0]), 2)
    elif aperf == "binary":
        kw["A_perf"] = (rng.rand(n_rows_perf, A) < 0.5).astype(float)
    elif aperf == "wide":
        kw["A_perf"] = np.round(rng.rand(n_rows_perf, A) * 1e6)
        kw["A_perf"].flat[0], kw["A_perf"].flat[-1] = 0.0, 1e6
    elif aperf == "uint8":
        kw["A_perf"] = rng.randint(0, 256, size=A).astype(np.uint8)
        kw["A_perf"][0], kw["A_perf"][-1] = 0, 255
    steps.begin()
    try:
        out = qs.query(**kw)
    except steps.StepBudgetExceeded:
        raise
    except Exception as ex:
        return {"skip": "query raises %s (judged by C07)" % type(ex).__name__}
    finally:
        steps.end()
    contracts.count("C20.saw-order-checker")
    if len(log) != 1:
        add("inner-not-called-exactly-once", "%d calls" % len(log))
        return {"nontrivial": False}
    inner_seq = np.asarray(log[0]["result"][0]).tolist()
    pairs = np.asarray(out[0]).tolist()
    order = []
    for s, a in pairs:
        if s not in order:
            order.append(s)
    # samples without any available annotator cannot appear in pairs: they are skipped in the inner sequence (see C07 / G24)
    avail = np.isnan(Y)
    if cand_idx is not None:
        avail = np.zeros(Y.shape, bool)
        avail[cand_idx] = True
    seq = [s for s in inner_seq if avail[s].any()]
    if order != seq[:len(order)]:
        add("samples-not-in-the-inner-strategy's-order", "pairs %s -> samples %s, inner strategy returned %s (A_perf: %s)" % (pairs, order, inner_seq, aperf))
    if aperf == "mat":
        # documented: within a sample the annotators are taken in the order of its row of A_perf (row i belongs to the i-th
        # given candidate, or to sample i without candidates)
        contracts.count("C20.saw-annotator-preference-checker")
        P = np.asarray(kw["A_perf"], float)
        for s in order:
            r = s if cand_idx is None else int(np.flatnonzero(cand_idx == s)[0])
            av = np.flatnonzero(avail[s])
            vals = P[r, av]
            if len(set(vals.tolist())) != len(vals):
                continue
            got = sorted(a for s_, a in pairs if s_ == s)
            want = sorted(av[np.argsort(-vals)][: len(got)].tolist())
            if got != want:
                add("annotators-of-a-sample-not-chosen-by-its-A_perf-row", "sample %d (row %d of A_perf %s, available %s): got annotators %s, the best are %s; candidates %s" % (
                    s, r, P[r].tolist(), av.tolist(), got, want, None if cand_idx is None else cand_idx.tolist()))
                break
    return {"nontrivial": len(order) >= 2}


def run_case(desc):
    pb.setup()
    miss = missing_from_registry()
    if miss:
        return {"status": "inconclusive", "reason": "exported strategies not in registry: %s" % miss}
    def accept(cc):
        if desc["wrapper"] == "par" and cc.cmode == "idx_any":
            return "candidate mode not applicable"
        if desc["wrapper"] == "sub" and desc["exclude"] and cc.cmode == "feat" and cc.n_labeled == 0:
            return "exclude_non_subsample with feature rows needs a labelled sample"
        return None
    c, why = poolcase.build_in_domain(dict(desc, batch=None if desc["wrapper"] == "sub" else "1"), accept)
    if why:
        return {"status": "skip", "skip_reason": why}
    e = c.entry
    comp = {"par": "ParallelUtilityEstimationWrapper", "sub": "SubSamplingWrapper", "saw": "SingleAnnotatorWrapper"}[desc["wrapper"]]
    viol = []

    def add(kind, detail):
        if not any(v["kind"] == kind for v in viol):
            viol.append({"component": comp, "kind": kind, "trigger": "any",
                         "detail": "%s [inner=%s %s]" % (detail, e.name, poolcase.cell_summary(c))})

    rng = gen.rng_for("c20", desc["seed"])
    try:
        r = {"par": run_par, "sub": run_sub, "saw": run_saw}[desc["wrapper"]](desc, c, e, add, rng)
    except steps.StepBudgetExceeded as ex:
        add("step-budget-exceeded", str(ex))
        r = {"nontrivial": False}
    from vf.monitors import contracts as ct
    ct.drain()
    for m in REQUIRED_MONITORS:
        contracts.count(m, 0)
    if r is None:
        return {"status": "skip", "skip_reason": "candidate mode not applicable", "monitors": contracts.drain_evals()}
    if "skip" in r:
        return {"status": "skip", "skip_reason": r["skip"], "monitors": contracts.drain_evals()}
    return {"status": "ok", "violations": viol, "nontrivial": bool(r.get("nontrivial")),
            "nt_key": "%s|%s|%s|%s|%s|%s|%d" % (desc["wrapper"], e.name, desc.get("n_jobs"), desc.get("max_candidates"), desc.get("exclude"),
                                              c.cmode, desc["seed"] % 9973),
            "cells": ["%s|%s" % (desc["wrapper"], e.name)], "monitors": contracts.drain_evals(), "counters": r.get("counters", {}),
            "observed": dict(poolcase.cell_summary(c), wrapper=desc["wrapper"], n_jobs=desc.get("n_jobs"), backend=desc.get("backend"),
                             max_candidates=desc.get("max_candidates"), exclude=desc.get("exclude"), **r.get("counters", {}))}
