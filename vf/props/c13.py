"""C13 - fit is history-free and never rewrites constructor parameters."""
import collections
import inspect

import warnings
import numpy as np
from sklearn.base import clone

from vf import gen, models, streams
from vf.core import stable_hash
from vf.monitors import contracts, state as st, steps, writes

from skactiveml.classifier import ParzenWindowClassifier, SklearnClassifier, SlidingWindowClassifier
from skactiveml.regressor import NICKernelRegressor
from sklearn.naive_bayes import GaussianNB

PROPERTY = "C13"
TECHNIQUE = "parameter-stability monitor (get_params fingerprint + constructor-parameter write monitor after every public call) + relational oracle refit-vs-fresh-object + bounded-deque reference model for SlidingWindowClassifier"
RULE = ("cases = estimator (every classifier and regressor incl. symbolic defaults gamma='mean' / metric_dict=None / mixture_model=None / "
        "solver_dict=None and caller-owned dicts shared by two estimators; every budget manager; every stream strategy with default and "
        "explicit manager) x random operation sequences of 2-6 calls (fit / partial_fit / predict / predict_proba / query / update on "
        "different data); after EVERY call the get_params(deep=True) fingerprint (dict contents included) must equal the one taken after "
        "construction and the write monitor must be silent; at the end fit(B) on the used object must predict like fit(B) on a fresh "
        "object built by the same constructor call (and like a clone); SlidingWindowClassifier after an arbitrary fit/partial_fit history "
        "must equal a fresh inner estimator fitted on the last window_size (labelled, if only_labeled) samples it was given (bounded "
        "deque reference model). Non-trivial = the sequence contains >= 2 fits on different data or a symbolic default / caller-owned dict; "
        "distinct by (object, variant, operation sequence).")
ASSUMPTIONS = ["SlidingWindowClassifier.fit resets the window (documented in its source); partial_fit extends it",
               "within one sliding-window history sample weights are either always or never given (mixing is outside the documented use)",
               "estimators are constructed with an integer random_state, so refit and fresh fit are comparable"]
REQUIRED_MONITORS = ["C13.params-stability-monitor", "C13.refit-vs-fresh-oracle", "C13.sliding-window-reference-model",
                     "C13.write-monitor-armed"]
CLF_VARIANTS = {
    "pwc_mean": lambda shared: ParzenWindowClassifier(metric_dict=shared, classes=[0, 1, 2], random_state=0),
    "pwc_default": lambda shared: ParzenWindowClassifier(classes=[0, 1, 2], random_state=0),
}


def _objects():
    out = []
    for name in models.CLASSIFIERS:
        out.append(("clf", name))
    out += [("clf", "pwc_mean"), ("clf", "pwc_shared_dict"), ("clf", "pwc_cost_unsorted"), ("clf", "sk_nb_cost_unsorted")]
    for name in models.REGRESSORS:
        out.append(("reg", name))
    out += [("reg", "nic_dict"), ("reg", "sk_sgd_pf")]
    for name in streams.BM_NAMES:
        out.append(("bm", name))
    for name in streams.STRAT_NAMES:
        for bm in streams.compatible_bms(name)[:2]:
            out.append(("stream", "%s/%s" % (name, bm)))
    out += [("sliding", "w%s_ol%d" % (w, ol)) for w in (1, 3, 6, None) for ol in (0, 1)]
    return out


def gen_cases(tier, seed):
    reps = {"quick": 6, "thorough": 200}[tier]
    cases = []
    for fam, name in _objects():
        for i in range(reps):
            cases.append({"id": "%s-%s-%03d" % (fam, name.replace("/", "+"), i), "family": fam, "name": name,
                          "seed": stable_hash(seed, "C13", fam, name, i)})
    return cases


def required_cells(tier):
    return ["%s|%s" % o for o in _objects()]


def _data(rng, kind, multi=False, n=None, n_annot=3):
    n = n or int(rng.randint(4, 12))
    X = np.round(rng.randn(n, 2) * float(rng.choice([0.3, 1.0, 4.0])), 3)
    if kind == "reg":
        y = np.round(rng.randn(n), 2)
    else:
        y = rng.randint(0, 3, size=n).astype(float)
    if multi:
        Y = np.tile(y[:, None], (1, n_annot))
        Y[rng.rand(n, n_annot) < 0.4] = np.nan
        return X, Y
    y[rng.rand(n) < 0.3] = np.nan
    if np.isnan(y).all():
        y[0] = 0.0
    return X, y


def _make_est(fam, name, shared):
    if fam == "clf":
        if name == "pwc_mean":
            return ParzenWindowClassifier(metric_dict={"gamma": "mean"}, classes=[0, 1, 2], random_state=0), False
        if name == "pwc_shared_dict":
            return ParzenWindowClassifier(metric_dict=shared, classes=[0, 1, 2], random_state=0), False
        if name.endswith("_cost_unsorted"):
            # classes given in another order than sorted and an asymmetric float64 cost matrix given as an array
            cm = np.array([[0.0, 1.0, 3.0], [2.0, 0.0, 1.0], [1.0, 4.0, 0.0]], order="F" if name.startswith("sk") else "C")
            f = models.CLASSIFIERS["pwc" if name.startswith("pwc") else "sk_nb"][0]
            return f([2, 0, 1], np.nan, cm, 0), False
        f, multi, _ = models.CLASSIFIERS[name]
        return f([0, 1, 2], np.nan, None, 0), multi
    if name == "nic_dict":
        return NICKernelRegressor(metric_dict=shared if shared is not None else {"gamma": 0.5}, random_state=0), False
    if name == "sk_sgd_pf":
        from sklearn.linear_model import SGDRegressor
        from skactiveml.regressor import SklearnRegressor
        return SklearnRegressor(SGDRegressor(random_state=0, max_iter=30, tol=None), random_state=0), False
    return models.REGRESSORS[name](), False


_CHANGES = {
    "var_smoothing": [1e-1, 1e-6], "C": [0.05, 10.0], "max_depth": [1, 2], "alpha": [0.5, 1e-3], "n_estimators": [2, 5],
    "n_neighbors": [1, 2], "class_prior": [0.0, 2.0], "kappa_0": [0.5, 3.0], "nu_0": [3.0, 8.0], "sigma_sq_0": [0.5, 2.0],
    "mu_0": [-1.0, 2.0], "weight_mode": ["responsibilities", "similarities"], "window_size": [2, 4], "only_labeled": [True, False],
    "voting": ["soft", "hard"], "max_iter": [5, 60], "weights_prior": [0.5, 2.0], "annot_prior_full": [1, 3],
    "random_state": [11, 12],
}


def _param_change(est, rng):
    """A legal change of one (possibly nested) parameter through the public set_params."""
    try:
        params = est.get_params(deep=True)
    except Exception:
        return None
    cands = []
    for k, v in params.items():
        leaf = k.split("__")[-1]
        if leaf in _CHANGES and not isinstance(v, (dict, list)):
            if leaf == "n_neighbors" and v is None:
                continue
            if leaf == "random_state" and not isinstance(v, (int, np.integer)):
                continue
            cands.append(k)
        elif leaf == "metric_dict" and (v is None or isinstance(v, dict)) and "gamma" not in str(v if v else ""):
            cands.append(k)
    if not cands:
        return None
    nested = [k for k in cands if "__" in k]
    if nested and rng.rand() < 0.7:       # parameters of wrapped estimators are where stale copies hide
        cands = nested
    k = cands[rng.randint(len(cands))]
    leaf = k.split("__")[-1]
    if leaf == "metric_dict":
        return {k: {"gamma": float(rng.choice([0.3, 2.0]))}}
    vals = [v for v in _CHANGES[leaf] if v != params[k]] or _CHANGES[leaf]
    return {k: vals[rng.randint(len(vals))]}


def _takes_weights(est):
    import inspect
    try:
        return "sample_weight" in inspect.signature(est.fit).parameters
    except (TypeError, ValueError):
        return False


def _predict_all(est, Q, fam):
    out = {}
    if fam == "clf":
        out["proba"] = np.asarray(est.predict_proba(Q), dtype=float)
    else:
        out["mean"] = np.asarray(est.predict(Q), dtype=float)
        if hasattr(est, "predict_target_distribution"):
            out["std"] = np.asarray(est.predict(Q, return_std=True)[1], dtype=float)
    return out


def run_estimator(desc):
    rng = gen.rng_for("c13", desc["seed"])
    fam, name = desc["family"], desc["name"]
    shared = {"gamma": "mean"} if name == "pwc_shared_dict" else ({"gamma": 0.5} if name == "nic_dict" else None)
    shared_before = st.fp(shared)
    est, multi = _make_est(fam, name, shared)
    other = ParzenWindowClassifier(metric_dict=shared, classes=[0, 1, 2], random_state=0) if name == "pwc_shared_dict" else None
    kind = "reg" if fam == "reg" else "clf"
    comp = type(est).__name__ + ("(%s)" % type(est.estimator).__name__ if hasattr(est, "estimator") else "")
    viol = []

    def add(kind_, detail):
        if not any(v["kind"] == kind_ for v in viol):
            viol.append({"component": comp, "kind": kind_, "detail": detail, "trigger": "any"})

    p0 = st.params_fp(est)
    writes.install()
    writes.reset()
    writes.watch(est, "estimator")
    contracts.count("C13.write-monitor-armed")
    ops = []
    nfits = 0
    has_pf = False
    try:
        has_pf = hasattr(est, "partial_fit")
    except Exception:
        has_pf = False
    applied = []          # set_params calls made on the used object (replayed on the fresh reference object)
    last_fit_X = None
    for step in range(int(rng.randint(2, 7))):
        op = ["fit", "partial_fit", "predict", "set_params", "set_params"][rng.randint(5)] if nfits else "fit"
        if op == "partial_fit" and not has_pf:
            op = "fit"
        if op == "set_params":
            change = _param_change(est, rng)
            if change is None:
                op = "fit"
            else:
                est.set_params(**change)
                applied.append(change)
                p0 = st.params_fp(est)          # set_params legitimately changes what get_params reports
                ops.append(("set_params", sorted(change)))
                continue
        X, y = _data(rng, kind, multi)
        if op == "fit":
            last_fit_X = X
        try:
            steps.begin()
            if op == "fit" and rng.rand() < 0.35 and _takes_weights(est):
                # a weighted fit in the history: nothing of it may survive into the final, unweighted fit
                est.fit(X, y, sample_weight=np.round(rng.rand(*np.shape(y)) * 3 + 0.1, 2))
                nfits += 1
                op = "fit_weighted"
            elif op == "fit":
                est.fit(X, y)
                nfits += 1
            elif op == "partial_fit":
                est.partial_fit(X, y)
            else:
                est.predict(X)
                if kind == "clf":
                    est.predict_proba(X)
            if other is not None and rng.rand() < 0.5:
                other.fit(*_data(rng, kind))
        except steps.StepBudgetExceeded as ex:
            add("step-budget-exceeded", str(ex))
            break
        except Exception as ex:
            ops.append((op, "raised %s" % type(ex).__name__))
            continue
        finally:
            steps.end()
        ops.append((op, len(X)))
        contracts.count("C13.params-stability-monitor")
        p1 = st.params_fp(est)
        if p1 != p0:
            add("get_params-changed-by-%s" % op, "after ops %s: %s" % (ops, [(d[0], d[1][:40], d[2][:40]) for d in st.diff(p0, p1)][:4]))
        if shared is not None and st.fp(shared) != shared_before:
            add("caller-owned-dict-modified", "after ops %s: dict is now %r" % (ops, shared))
        for ev in writes.drain():
            add("constructor-parameter-written:%s.%s" % (ev["cls"], ev["param"]), "at %s in %s after ops %s" % (ev["where"], ev["func"], ops))
    writes.reset()
    # ---- refit on used object vs. fresh object built by the same constructor call
    XB, yB = _data(rng, kind, multi)
    if last_fit_X is not None and rng.rand() < 0.4:
        # the very same samples as in the last fit, with other labels (and possibly other parameters since): nothing
        # computed from X in the earlier fit may be reused
        XB = last_fit_X.copy()
        _, yB = _data(rng, kind, multi, n=len(XB))
        ops.append(("final-fit-on-the-X-of-the-last-fit", len(XB)))
    Q = np.vstack([XB, np.round(rng.randn(4, 2), 3)])
    try:
        steps.begin()
        fresh, _ = _make_est(fam, name, {"gamma": "mean"} if name == "pwc_shared_dict" else ({"gamma": 0.5} if name == "nic_dict" else None))
        for change in applied:
            fresh.set_params(**change)
        used_out = _predict_all(est.fit(XB, yB), Q, fam)
        fresh_out = _predict_all(fresh.fit(XB, yB), Q, fam)
        contracts.count("C13.refit-vs-fresh-oracle")
        for k in fresh_out:
            if not np.allclose(used_out[k], fresh_out[k], rtol=1e-7, atol=1e-9, equal_nan=True):
                i = int(np.argmax(np.abs(used_out[k] - fresh_out[k]).reshape(len(Q), -1).max(axis=1)))
                add("refit-differs-from-fresh-fit:%s" % k, "history %s then fit(B): query %d used %r vs fresh %r" % (
                    ops, i, np.asarray(used_out[k][i]).tolist(), np.asarray(fresh_out[k][i]).tolist()))
        try:
            cl = clone(est).fit(XB, yB)
            cl_out = _predict_all(cl, Q, fam)
            for k in fresh_out:
                if not np.allclose(cl_out[k], fresh_out[k], rtol=1e-7, atol=1e-9, equal_nan=True):
                    add("clone-after-use-differs-from-fresh:%s" % k, "history %s" % ops)
        except Exception as ex:
            add("clone-after-use-fails", repr(ex)[:150])
    except steps.StepBudgetExceeded as ex:
        add("step-budget-exceeded", str(ex))
    except Exception as ex:
        # the fresh object raising as well means the data B is simply not admissible for this estimator
        try:
            fresh2, _ = _make_est(fam, name, None if shared is None else dict(shared_before and {"gamma": "mean"} if name == "pwc_shared_dict" else {"gamma": 0.5}))
            for change in applied:           # same configuration as the used object
                fresh2.set_params(**change)
            fresh2.fit(XB, yB)
            _predict_all(fresh2, Q, fam)
            add("refit-raises-but-fresh-fit-works", "%s: %s" % (type(ex).__name__, str(ex)[:150]))
        except Exception:
            pass
    finally:
        steps.end()
    # ---- an incremental learner whose earlier fit saw no label at all has learned nothing: partial_fit(C) on it equals
    #      partial_fit(C) on a fresh object (the documented history of both is C only)
    if has_pf and not multi and not viol:
        XC, yC = _data(rng, kind, multi)
        try:
            steps.begin()
            used2, _ = _make_est(fam, name, None)
            fresh3, _ = _make_est(fam, name, None)
            with warnings.catch_warnings():
                warnings.simplefilter("ignore")
                used2.fit(XB, np.full(len(XB), np.nan))
                used2.partial_fit(XC, yC)
                fresh3.partial_fit(XC, yC)
            u_out, f_out = _predict_all(used2, Q, fam), _predict_all(fresh3, Q, fam)
            contracts.count("C13.partial_fit-after-label-free-fit-oracle")
            for k in f_out:
                if not np.allclose(u_out[k], f_out[k], rtol=1e-7, atol=1e-9, equal_nan=True):
                    add("partial_fit-after-label-free-fit-differs-from-fresh-partial_fit:%s" % k,
                        "fit(X, all labels missing) then partial_fit(C): %r vs fresh partial_fit(C): %r" % (
                            np.asarray(u_out[k][0]).tolist(), np.asarray(f_out[k][0]).tolist()))
        except steps.StepBudgetExceeded as ex:
            add("step-budget-exceeded", str(ex))
        except Exception:
            contracts.count("C13.partial_fit-after-label-free-fit-not-admissible")
        finally:
            steps.end()
    symbolic = name in ("pwc_mean", "pwc_shared_dict", "nic_dict", "pwc", "mixture", "annot_lr", "nic", "nw") or "pwc" in name
    return {"status": "ok", "violations": viol, "nontrivial": bool(nfits >= 2 or symbolic),
            "nt_key": "%s|%s|%s" % (fam, name, ops), "cells": ["%s|%s" % (fam, name)], "monitors": contracts.drain_evals(),
            "observed": {"object": comp, "variant": name, "ops": ops}}


def run_stream(desc):
    rng = gen.rng_for("c13s", desc["seed"])
    fam, name = desc["family"], desc["name"]
    budget = [None, 0.1, 0.5][desc["seed"] % 3]
    if fam == "bm":
        obj = streams.make_bm(name, budget, int(rng.choice([1, 5, 100])), int(desc["seed"] % 1000), **streams.variant_kwargs(name, desc["seed"]))
        comp = name
    else:
        sname, bmname = name.split("/")
        bm = None if bmname == "None" else streams.make_bm(bmname, budget, 20, 3)
        extra = dict(streams.variant_kwargs(sname, desc["seed"]))
        if sname in ("StreamProbabilisticAL",):
            extra["metric"] = [None, "rbf", "rbf"][desc["seed"] % 3]
            if extra["metric"] == "rbf":
                # caller-owned dictionaries: absent, empty, or without the key the strategy resolves lazily
                extra["metric_dict"] = [None, {}, {"gamma": 0.5}][(desc["seed"] >> 2) % 3]
        obj = streams.make_strategy(sname, None if bm is not None else budget, int(desc["seed"] % 1000), bm=bm, **extra)
        comp = sname
    viol = []

    def add(kind_, detail):
        if not any(v["kind"] == kind_ for v in viol):
            viol.append({"component": comp, "kind": kind_, "detail": detail, "trigger": "any"})

    p0 = st.params_fp(obj)
    writes.install()
    writes.reset()
    writes.watch(obj, "object")
    contracts.count("C13.write-monitor-armed")
    d = 2
    clf = None
    if fam == "stream" and streams.needs_clf(obj):
        clf = streams.pwc_clf(gen.rng_for("c13clf", desc["seed"]), d)
    ops = []
    for step in range(int(rng.randint(2, 7))):
        k = int(rng.randint(1, 9))
        X = streams.feature_stream(rng, k, d, "dyadic")
        try:
            steps.begin()
            if fam == "bm":
                U = np.round(rng.rand(k) * 64) / 64
                idx = obj.query_by_utility(U)
                ops.append(("query_by_utility", k))
                _check(obj, p0, add, ops)
                streams.update_bm(obj, X, idx, U)
                ops.append(("update", k))
            else:
                if getattr(obj, "metric", None) is not None:      # a kernel density needs the training data
                    Xt = streams.feature_stream(rng, 8, d, "dyadic")
                    yt = (Xt[:, 0] > 0.5).astype(float)
                    yt[rng.rand(8) < 0.3] = np.nan
                    idx, U = streams.query_strategy(obj, X, clf, X=Xt, y=yt)
                else:
                    idx, U = streams.query_strategy(obj, X, clf)
                ops.append(("query", k))
                _check(obj, p0, add, ops)
                streams.update_strategy(obj, X, idx, U)
                ops.append(("update", k))
            _check(obj, p0, add, ops)
        except steps.StepBudgetExceeded as ex:
            add("step-budget-exceeded", str(ex))
            break
        except Exception as ex:
            ops.append(("raised", type(ex).__name__))
            break
        finally:
            steps.end()
    writes.reset()
    contracts.count("C13.refit-vs-fresh-oracle", 0)
    return {"status": "ok", "violations": viol, "nontrivial": True, "nt_key": "%s|%s|%s|%s" % (fam, name, budget, ops),
            "cells": ["%s|%s" % (fam, name)], "monitors": contracts.drain_evals(),
            "observed": {"object": comp, "variant": name, "budget": budget, "ops": ops}}


def _check(obj, p0, add, ops):
    contracts.count("C13.params-stability-monitor")
    p1 = st.params_fp(obj)
    if p1 != p0:
        add("get_params-changed-by-%s" % ops[-1][0], "after ops %s: %s" % (ops, [(d[0], d[1][:40], d[2][:40]) for d in st.diff(p0, p1)][:4]))
    for ev in writes.drain():
        add("constructor-parameter-written:%s.%s" % (ev["cls"], ev["param"]), "at %s in %s after ops %s" % (ev["where"], ev["func"], ops))


def run_sliding(desc):
    rng = gen.rng_for("c13w", desc["seed"])
    w = {"w1": 1, "w3": 3, "w6": 6, "wNone": None}[desc["name"].split("_")[0]]
    ol = desc["name"].endswith("ol1")
    inner = lambda: SklearnClassifier(GaussianNB(var_smoothing=1e-2), classes=[0, 1, 2], random_state=0) if desc["seed"] % 2 else \
        ParzenWindowClassifier(classes=[0, 1, 2], metric_dict={"gamma": 0.5}, random_state=0)
    swc = SlidingWindowClassifier(inner(), classes=[0, 1, 2], window_size=w, only_labeled=ol, random_state=0)
    use_w = bool((desc["seed"] >> 3) % 2)
    mixed_w = bool((desc["seed"] >> 5) % 2)
    ref = collections.deque(maxlen=w)
    viol = []
    ops = []
    p0 = st.params_fp(swc)
    Q = np.round(rng.randn(6, 2), 3)
    for step in range(int(rng.randint(2, 8))):
        op = "fit" if step == 0 or rng.rand() < 0.2 else "partial_fit"
        if step > 0 and rng.rand() < 0.25:
            # a window size changed through set_params applies to the next call: fit restarts the window, partial_fit keeps
            # the most recent samples that fit into the new size
            w = [v for v in (1, 2, 4, None) if v != w][rng.randint(3)]
            swc.set_params(window_size=w)
            p0 = st.params_fp(swc)
            ops.append(("set_params", "window_size=%s" % w, 0))
            ref = collections.deque(ref, maxlen=w)
        X, y = _data(rng, "clf", n=int(rng.randint(1, 6)))
        if step > 0 and rng.rand() < 0.2:
            y[:] = np.nan          # a chunk without any label still moves the window
        sw = np.round(rng.rand(len(X)) + 0.2, 2) if use_w else None
        if use_w and mixed_w and rng.rand() < 0.4:
            sw = None          # a call without weights in a weighted history: the stored weights are dropped (count as one)
        Xp, yp, swp = X.copy(), y.copy(), (None if sw is None else sw.copy())
        try:
            steps.begin()
            if sw is None:
                getattr(swc, op)(Xp, yp)
            else:
                getattr(swc, op)(Xp, yp, sample_weight=swp)
            # the caller reuses its chunk buffers: the window must hold copies
            Xp[:] = 99.0
            yp[:] = 0.0
            if swp is not None:
                swp[:] = 50.0
        except steps.StepBudgetExceeded as ex:
            viol.append({"component": "SlidingWindowClassifier", "kind": "step-budget-exceeded", "detail": str(ex), "trigger": "any"})
            break
        except Exception as ex:
            viol.append({"component": "SlidingWindowClassifier", "kind": "raises:%s" % type(ex).__name__, "trigger": "any",
                         "detail": "ops %s then %s(%d samples): %s" % (ops, op, len(X), str(ex)[:150])})
            break
        finally:
            steps.end()
        ops.append((op, len(X), int(np.isnan(y).sum())))
        if op == "fit":
            ref = collections.deque(maxlen=w)
        if use_w and sw is None:
            # documented behaviour: a call without sample_weight drops the stored weights (every stored sample counts once)
            ref = collections.deque([(t[0], t[1], 1.0) for t in ref], maxlen=w)
        for i in range(len(X)):
            if ol and np.isnan(y[i]):
                continue
            ref.append((X[i], y[i], (1.0 if use_w else None) if sw is None else sw[i]))
        contracts.count("C13.sliding-window-reference-model")
        if st.params_fp(swc) != p0:
            viol.append({"component": "SlidingWindowClassifier", "kind": "get_params-changed-by-%s" % op, "trigger": "any", "detail": "ops %s" % ops})
            break
        if len(ref) == 0:
            continue
        Xr = np.array([t[0] for t in ref])
        yr = np.array([t[1] for t in ref])
        fresh = inner()
        if sw is None:
            fresh.fit(Xr, yr)
        else:
            fresh.fit(Xr, yr, sample_weight=np.array([t[2] for t in ref], dtype=float))
        a, b = np.asarray(swc.predict_proba(Q), float), np.asarray(fresh.predict_proba(Q), float)
        if not np.allclose(a, b, rtol=1e-7, atol=1e-9):
            viol.append({"component": "SlidingWindowClassifier", "kind": "differs-from-fit-on-last-window", "trigger": "any",
                         "detail": "window_size=%s only_labeled=%s weights=%s after ops %s: window should hold %d samples; P %r vs %r" % (
                             w, ol, use_w, ops, len(ref), a[0].tolist(), b[0].tolist())})
            break
    contracts.count("C13.refit-vs-fresh-oracle", 0)
    contracts.count("C13.write-monitor-armed", 0)
    contracts.count("C13.params-stability-monitor", 0)
    total = sum(o[1] for o in ops if o[0] != "set_params")
    return {"status": "ok", "violations": viol, "nontrivial": bool(w is not None and total > w),
            "nt_key": "sliding|%s|%s|w%d|%s" % (w, ol, use_w, ops), "cells": ["sliding|%s" % desc["name"]],
            "monitors": contracts.drain_evals(), "observed": {"window_size": w, "only_labeled": ol, "weights": use_w, "ops": ops}}


def run_case(desc):
    steps.install()
    if desc["family"] in ("clf", "reg"):
        return run_estimator(desc)
    if desc["family"] in ("bm", "stream"):
        return run_stream(desc)
    return run_sliding(desc)
