"""C01 - pool query returns a valid batch: right size, distinct, only candidates."""
from vf.props import _pool_batch as pb

PROPERTY = "C01"
TECHNIQUE = "runtime post-condition contract on every pool query + step-budget monitor over generated workloads"
RULE = ("cases = registry entry (strategy x method/model variant) x candidate mode {None, unlabelled index subset, "
        "arbitrary index set, feature rows} x batch regime {1, 2-3, =n_cand, n_cand+2} x data regime "
        "{normal,dups,const,grid,far,scaled} x label regime {cold,one,oneclass,unobserved,half,lastone,random}; "
        "the class-level contract recomputes the candidate set from the raw arguments and checks type/ndim/dtype/"
        "length/distinctness/membership of every (also nested) query result; an in-domain exception or a step-budget "
        "overrun is a violation. Non-trivial = batch_size >= 2 and (tie-prone data or cold start or exact utility tie "
        "or batch_size >= n_candidates or feature-row candidates); distinct by (entry, cmode, batch, data, labels, n, k).")
ASSUMPTIONS = [
    "domain predicates of vf/registry.py (documented preconditions) decide which generated cases are executed",
    "termination is decided as bounded progress: <= 3e6 loop back-edges inside skactiveml code per query",
    "a run decides only the executions it produced",
]
REQUIRED_MONITORS = ["C01.query-contract"]
required_cells = pb.required_cells


def gen_cases(tier, seed):
    return pb.gen_cases("C01", tier, seed)


def run_case(desc):
    return pb.run_case(desc, "C01")
