"""C14 - a pool active-learning loop labels every sample exactly once."""
import math

import numpy as np

from vf import gen, poolcase, triggers
from vf.core import stable_hash
from vf.monitors import contracts, steps
from vf.props import _pool_batch as pb
from vf.registry import POOL, missing_from_registry

PROPERTY = "C14"
TECHNIQUE = "recorded multi-cycle loop history checked offline by an exactly-once / cycle-count checker, with the C01 query contract on every cycle"
RULE = ("cases = registry entry x initial labelling regime x batch size {1,2,3,4,>u} x oracle {true labels, constant, "
        "two-valued, class-vanishing} x data regime; the SAME strategy object is driven through query -> reveal -> repeat "
        "until the pool is exhausted or a violation stops the run; the recorded history is checked: every query succeeds "
        "within the step budget, returns only still-unlabelled, pairwise distinct, never-before-returned indices, batch "
        "sizes are batch_size except the last, the pool is exhausted after exactly ceil(u/batch_size) queries. "
        "Non-trivial = (>= 3 cycles and the last batch is short) or the run starts from zero labels; distinct by "
        "(entry, data, labels, oracle, n, u, batch_size).")
ASSUMPTIONS = [
    "standard loop with candidates=None (the unlabelled samples are the candidates)",
    "domain predicates of vf/registry.py",
    "bounded progress: <= 3e6 loop back-edges inside skactiveml per query",
]
REQUIRED_MONITORS = ["C14.loop-history-checker", "C01.query-contract"]
ORACLES = ["true", "constant", "two", "vanish"]


def gen_cases(tier, seed):
    reps = {"quick": 14, "thorough": 400}[tier]
    cases = []
    for name, e in POOL.items():
        if not e.loop:
            continue
        r = max(2, reps // e.slow)
        for i in range(r):
            s = stable_hash(seed, "C14", name, i)
            labels = gen.LABEL_REGIMES[i % len(gen.LABEL_REGIMES)]
            if e.no_cold:       # the model of this entry needs two observed classes from the start
                labels = ["half", "random", "lastone", "half"][i % 4]
            cases.append({"entry": name, "seed": s, "labels": labels, "cmode": "none",
                          "oracle": ORACLES[(i // 2) % len(ORACLES)],
                          "bs": [1, 2, 3, 4, 99][(i + s) % 5],
                          "nmax": (10 if tier == "quick" else 22) // (2 if e.slow > 1 else 1)})
    for i, c in enumerate(cases):
        c["id"] = "%s-%04d" % (c["entry"], i)
    return cases


def required_cells(tier):
    return ["%s|loop" % n for n, e in POOL.items() if e.loop] + ["%s|cold" % n for n, e in POOL.items() if e.loop and not e.no_cold]


def run_case(desc):
    pb.setup()
    miss = missing_from_registry()
    if miss:
        return {"status": "inconclusive", "reason": "exported strategies not in registry: %s" % miss}
    c, why = poolcase.build_in_domain(dict(desc, batch="1"))
    if why:
        return {"status": "skip", "skip_reason": why}
    e = c.entry
    rng = gen.rng_for("c14", desc["seed"])
    y = c.y.copy()
    u0 = int(np.isnan(y).sum())
    bs = u0 + 2 if desc["bs"] == 99 else int(desc["bs"])
    if e.bs1_only:
        bs = 1
    expected_cycles = math.ceil(u0 / bs)
    qs = e.make(c.strategy_seed)
    if c.kind == "reg":
        truth = c.y_true
        const = float(np.round(rng.randn(), 1))
        two = np.where(rng.rand(c.n) < 0.5, 0.0, 1.0)
    else:
        truth = c.y_true
        const = float(c.classes[rng.randint(len(c.classes))])
        two = np.array(c.classes, dtype=float)[rng.randint(0, 2, size=c.n)]
    history = []
    viol = []
    queried = set()
    contracts.drain()
    cyc = 0
    stop = None
    # caller-owned per-sample arrays that a loop naturally reuses in every cycle (density weights, sample weights)
    qp = poolcase.query_params(e)
    reuse = {}
    if (desc["seed"] >> 13) % 3 == 0:
        if "utility_weight" in qp:
            reuse["utility_weight"] = np.round(rng.rand(c.n) + 0.5, 2)
        if "sample_weight" in qp:
            reuse["sample_weight"] = np.round(rng.rand(c.n) + 0.2, 2)
    while np.isnan(y).any():
        if cyc >= expected_cycles + 3:
            stop = "too-many-cycles"
            break
        kw = dict(e.kwargs(c.ctx))
        if e.domain is not None and cyc > 0:
            # the documented / third-party domain of the strategy's model (e.g. GaussianNB on coinciding labelled rows) is
            # judged on the labels of the current cycle: the loop ends where it is left
            import copy as _copy
            view = _copy.copy(c)           # (the case itself keeps its initial description)
            view.lab = ~np.isnan(y)
            view.n_labeled = int(view.lab.sum())
            view.n_classes_obs = len(set(y[view.lab].tolist())) if c.kind != "reg" else None
            try:
                left = e.domain(view)
            except Exception:
                left = None
            if left:
                stop = "left-domain"
                break
        unl = set(np.flatnonzero(np.isnan(y)).tolist())
        steps.begin()
        try:
            idx = qs.query(X=c.X.copy(), y=y.copy(), batch_size=bs, **kw, **reuse)
        except steps.StepBudgetExceeded as ex:
            viol.append({"component": e.cls.__name__, "kind": "step-budget-exceeded", "detail": "cycle %d: %s" % (cyc, ex)})
            stop = "exception"
            break
        except Exception as ex:
            viol.append({"component": e.cls.__name__, "kind": "exception:%s" % type(ex).__name__,
                         "detail": "cycle %d (remaining %d, labelled %d): %s: %s" % (
                             cyc, len(unl), c.n - len(unl), type(ex).__name__, str(ex)[:200])})
            stop = "exception"
            break
        finally:
            steps.end()
        try:
            lst = [int(i) for i in np.asarray(idx).ravel().tolist()]
        except Exception:
            viol.append({"component": e.cls.__name__, "kind": "malformed-result", "detail": repr(idx)[:100]})
            break
        history.append(lst)
        want = min(bs, len(unl))
        if len(set(lst)) != len(lst):
            viol.append({"component": e.cls.__name__, "kind": "duplicate-in-batch", "detail": "cycle %d: %s" % (cyc, lst)})
        again = sorted(set(lst) & queried)
        if again:
            viol.append({"component": e.cls.__name__, "kind": "queried-twice", "detail": "cycle %d: %s again" % (cyc, again)})
        notunl = sorted(set(lst) - unl - queried)
        if notunl:
            viol.append({"component": e.cls.__name__, "kind": "labelled-sample-selected",
                         "detail": "cycle %d: %s were labelled initially" % (cyc, notunl)})
        if len(lst) < want:
            viol.append({"component": e.cls.__name__, "kind": "short-batch", "detail": "cycle %d: %d < %d" % (cyc, len(lst), want)})
        elif len(lst) > want:
            viol.append({"component": e.cls.__name__, "kind": "long-batch", "detail": "cycle %d: %d > %d" % (cyc, len(lst), want)})
        new = [i for i in lst if i in unl]
        if not new:
            stop = "no-progress"
            break
        queried |= set(new)
        for i in new:
            if desc["oracle"] == "true":
                y[i] = truth[i]
            elif desc["oracle"] == "constant":
                y[i] = const
            elif desc["oracle"] == "two":
                y[i] = two[i]
            else:  # vanish: everything gets the label of the first revealed sample's class / value
                y[i] = truth[new[0]] if cyc % 2 == 0 else const
        cyc += 1
    contracts.count("C14.loop-history-checker")
    if stop is None and cyc != expected_cycles and not viol:
        viol.append({"component": e.cls.__name__, "kind": "wrong-number-of-cycles",
                     "detail": "%d cycles, expected ceil(%d/%d)=%d" % (cyc, u0, bs, expected_cycles)})
    if stop == "too-many-cycles" and not viol:
        viol.append({"component": e.cls.__name__, "kind": "wrong-number-of-cycles", "detail": "more than %d" % (expected_cycles + 3)})
    if stop == "no-progress" and not viol:
        viol.append({"component": e.cls.__name__, "kind": "no-progress", "detail": "cycle %d returned %s" % (cyc, history[-1])})
    # nested / per-cycle C01 contract records (type, ndim, dtype ...)
    for r in contracts.drain():
        for kind, detail in r.get("c01") or []:
            if kind in ("not-ndarray", "wrong-ndim", "non-integer-dtype", "malformed-result"):
                viol.append({"component": r["cls"], "kind": kind, "detail": detail})
    # dedupe kinds within the case
    seen = set()
    uv = []
    for v in viol:
        v.setdefault("n_labeled_now", c.n - int(np.isnan(y).sum()))
        k = (v["component"], v["kind"])
        if k not in seen:
            seen.add(k)
            v["trigger"] = triggers.classify("C14", v, c)
            uv.append(v)
    short_last = bool(history) and u0 % bs != 0
    nontrivial = (cyc >= 3 and short_last) or c.n_labeled == 0
    cells = ["%s|loop" % e.name]
    if c.n_labeled == 0:
        cells.append("%s|cold" % e.name)
    return {"status": "ok", "violations": uv, "nontrivial": bool(nontrivial),
            "nt_key": "%s|%s|%s|%s|n%d|u%d|b%d" % (e.name, c.data, c.labels, desc["oracle"], c.n, u0, bs),
            "cells": cells, "monitors": contracts.drain_evals(),
            "counters": {"cycles": cyc, "queries_checked": len(history)},
            "observed": dict(poolcase.cell_summary(c), u0=u0, bs=bs, oracle=desc["oracle"], cycles=cyc,
                             expected_cycles=expected_cycles, history=history[:12])}
