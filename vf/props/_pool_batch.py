"""Shared workload driver of C01 (valid batch) and C02 (utilities agree with selection)."""
import numpy as np

from vf import gen, poolcase, triggers
from vf.core import stable_hash
from vf.monitors import contracts, steps
from vf.registry import POOL, missing_from_registry

_ready = [False]


def setup():
    if not _ready[0]:
        contracts.install_pool_query_contracts()
        steps.install()
        _ready[0] = True


def gen_cases(prop, tier, seed):
    reps = {"quick": 3, "thorough": 80}[tier]
    cases = []
    for name, e in POOL.items():
        r = max(1, reps // e.slow)
        for cm in poolcase.cmodes_for(e):
            for b in gen.BATCH_REGIMES:
                for i in range(r):
                    cases.append(poolcase.describe(name, stable_hash(seed, prop, name, cm, b, i), cmode=cm, batch=b))
        # forced regimes: cold start, single remaining candidate, exact ties
        forced = [dict(labels="cold", cmode="none"), dict(labels="lastone", cmode="none"),
                  dict(data="grid", batch="2-3"), dict(data="dups", batch="exact"),
                  dict(data="const", batch="over"), dict(labels="cold", batch="over"),
                  dict(data="far"), dict(labels="oneclass"), dict(labels="unobserved"),
                  dict(data="bow", batch="exact"), dict(data="bow", batch="over", labels="one")]
        for j, f in enumerate(forced):
            for i in range(r):
                cases.append(poolcase.describe(name, stable_hash(seed, prop, name, "forced", j, i), **f))
    if tier == "thorough":
        for c in cases:
            c["nmax"] = None
        # pools of several hundred samples (frequency estimates, likelihood products and distance sums on another scale)
        for name, e in POOL.items():
            if e.slow == 1 and e.nmax >= 40:
                for i in range(2):
                    s = stable_hash(seed, prop, name, "big", i)
                    cases.append(poolcase.describe(name, s, n=[300, 700][i], labels=["half", "random"][i], batch=["2-3", "1"][i],
                                                   data=["normal", "dups"][i]))
                    cases[-1]["nmax"] = None
    else:
        for c in cases:
            c["nmax"] = 16
    for i, c in enumerate(cases):
        c["id"] = "%s-%05d" % (c["entry"], i)
        c["allow_dup_candidates"] = True
        c["allow_negative_candidates"] = True
        c["ru"] = True if prop == "C02" else bool(stable_hash(c["seed"], "ru") % 2)
        c["kwv"] = [0, 0, 1, 2, 3, 4, 5, 6, 7][stable_hash(c["seed"], "kwv") % 9]      # call variant: default / pre-fitted / weights / lists / layout / float32
    return cases


def required_cells(tier):
    cells = []
    for name, e in POOL.items():
        for cm in poolcase.cmodes_for(e):
            cells.append("%s|cmode=%s" % (name, cm))
        cells += ["%s|single" % name, "%s|ties" % name] + ([] if e.no_cold else ["%s|cold" % name])
    return cells


def _tie_info(U, idx):
    """Does some utility row have an exact tie at its maximum?"""
    try:
        U = np.asarray(U, dtype=float)
        for i in range(len(U)):
            row = U[i][~np.isnan(U[i])]
            if len(row) >= 2 and np.sum(row == row.max()) >= 2:
                return True
    except Exception:
        pass
    return False


def run_case(desc, prop):
    setup()
    miss = missing_from_registry()
    if miss:
        return {"status": "inconclusive", "reason": "exported strategies not in registry: %s" % miss}
    c, why = poolcase.build_in_domain(desc)
    if why:
        return {"status": "skip", "skip_reason": why}
    e = c.entry
    qs = e.make(c.strategy_seed)
    kw = poolcase.call_kwargs(c, return_utilities=desc["ru"], variant=desc.get("kwv", 0))
    contracts.drain()
    viol = []
    exc = None
    out = None
    steps.begin()
    try:
        out = qs.query(**kw)
    except steps.StepBudgetExceeded as ex:
        exc = ("step-budget-exceeded", str(ex))
    except Exception as ex:
        if c.has_dups and isinstance(ex, ValueError) and "same value" in str(ex):
            contracts.drain()
            return {"status": "ok", "violations": [], "nontrivial": False, "cells": ["%s|cmode=%s" % (e.name, c.cmode)],
                    "monitors": contracts.drain_evals(), "counters": {"duplicate_candidates_rejected": 1},
                    "observed": dict(poolcase.cell_summary(c), rejected="duplicate candidate indices")}
        exc = ("exception:%s" % type(ex).__name__, "%s: %s" % (type(ex).__name__, str(ex)[:300]))
    finally:
        nsteps = steps.end()
    recs = contracts.drain()
    observed = {"steps": nsteps}
    top = [r for r in recs if r["depth"] == 0]
    if exc is not None:
        if prop == "C01":
            comp = e.cls.__name__
            viol.append({"component": comp, "kind": exc[0], "detail": exc[1]})
        observed["exception"] = exc[1]
    for r in recs:
        key = "c01" if prop == "C01" else "c02"
        for kind, detail in r.get(key) or []:
            viol.append({"component": r["cls"], "kind": kind, "detail": detail,
                         "nested": r["depth"] > 0})
    ties = False
    if out is not None and desc["ru"]:
        try:
            idx, U = out
            observed["idx"] = np.asarray(idx).tolist()
            ties = _tie_info(U, idx)
            observed["tie_at_max"] = ties
        except Exception:
            pass
    elif out is not None:
        try:
            observed["idx"] = np.asarray(out).tolist()
        except Exception:
            observed["idx"] = repr(out)[:100]
    for v in viol:
        v["trigger"] = triggers.classify(prop, v, c)
    cells = ["%s|cmode=%s" % (e.name, c.cmode)]
    if c.n_labeled == 0:
        cells.append("%s|cold" % e.name)
    if len(c.cset) == 1:
        cells.append("%s|single" % e.name)
    tieish = c.data in ("dups", "const", "grid") or c.n_labeled == 0 or ties
    if tieish:
        cells.append("%s|ties" % e.name)
    if prop == "C01":
        nontrivial = c.bs >= 2 and (tieish or c.bs >= len(c.cset) or c.cmode == "feat")
    else:
        nontrivial = (c.k >= 2 and ties) or c.k >= 3
    observed.update(poolcase.cell_summary(c))
    res = {"status": "ok", "violations": viol, "observed": observed, "cells": cells,
           "nontrivial": bool(nontrivial),
           "nt_key": "%s|%s|%s|%s|%s|n%d|k%d|v%d" % (e.name, c.cmode, c.batch, c.data, c.labels, c.n, c.k, desc.get("kwv", 0)),
           "monitors": contracts.drain_evals(),
           "counters": {"nested_calls_checked": sum(1 for r in recs if r["depth"] > 0)}}
    return res
