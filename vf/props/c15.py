"""C15 - regressor predictions are coherent with their predictive distribution."""
import numpy as np
from sklearn.metrics.pairwise import pairwise_kernels

from vf import gen, models
from vf.core import stable_hash
from vf.monitors import contracts, steps
from vf.props.c12 import FailingRegressor

from skactiveml.regressor import (NICKernelRegressor, NadarayaWatsonRegressor, SklearnNormalRegressor,
                                  SklearnRegressor)

PROPERTY = "C15"
TECHNIQUE = "post-condition contracts on predict / predict_target_distribution / sample_y of every regressor + relational check predict <-> distribution on the same query points, incl. kernel-underflow and cannot-fit regimes"
RULE = ("cases = regressor (NICKernelRegressor with random proper/improper priors and bandwidths, NadarayaWatsonRegressor, "
        "SklearnRegressor x {LinearRegression, DecisionTree, SVR, unfittable estimator}, SklearnNormalRegressor x {GP, BayesianRidge, ARD, "
        "unfittable estimator}) x training set with 0/1/2/many labels x query points at, near and far (kernel underflow, subnormal "
        "kernel mass) from the training data; contracts: predict == distribution.mean() exactly, return_std/return_entropy == "
        ".std()/.entropy(); mean and std finite and std >= 0 whenever the Student-t posterior has a finite variance by the monitor's own "
        "kernel computation (kappa_0 + N > 0 and nu_0 + N > 2: covers 'proper prior' and 'enough labelled kernel mass'); sample_y has "
        "shape (n_query, n_samples) and is reproducible for a fixed random_state; wrapped regressors fall back to mean 0 (no labels) / "
        "label mean and std (estimator cannot be fitted) instead of raising. Non-trivial = <= 1 labelled sample, or a query point with "
        "kernel mass < 1e-300, or an estimator that fails to fit; distinct by (regressor, prior, n_labelled, query regime, seed).")
ASSUMPTIONS = ["'proper prior' = kappa_0 > 0 and nu_0 > 2: for nu <= 2 the Student-t variance is mathematically infinite (DESIGN 5.6)",
               "kernel mass N is recomputed by the monitor with sklearn.metrics.pairwise_kernels"]
REQUIRED_MONITORS = ["C15.predict-vs-distribution", "C15.sample_y-contract", "C15.fallback-contract"]
REGS = ["nic", "nic_improper", "nw", "sk_lin", "sk_tree", "sk_svr", "sk_fail", "sk_lassocv", "sk_pretrained_sgd", "skn_gp_alpha0", "skn_gp", "skn_br", "skn_ard", "skn_fail"]


def gen_cases(tier, seed):
    reps = {"quick": 18, "thorough": 1500}[tier]
    cases = []
    for name in REGS:
        for i in range(reps):
            cases.append({"id": "%s-%04d" % (name, i), "reg": name, "seed": stable_hash(seed, "C15", name, i),
                          "nl": [0, 1, 2, 5, 9][i % 5], "far": ["near", "far", "subnormal"][(i // 5) % 3]})
    return cases


def required_cells(tier):
    return ["reg=%s" % r for r in REGS] + ["nl=%d" % k for k in (0, 1, 2)]


def _make(name, rng):
    if name == "nic":
        return NICKernelRegressor(kappa_0=float(rng.choice([0.1, 1, 5])), nu_0=float(rng.choice([2.5, 3, 10])),
                                  mu_0=float(np.round(rng.randn(), 2)), sigma_sq_0=float(rng.choice([0.1, 1, 4])),
                                  metric_dict={"gamma": float(rng.choice([0.1, 1, 10]))}, random_state=0)
    if name == "nic_improper":
        return NICKernelRegressor(kappa_0=float(rng.choice([0, 0.5])), nu_0=float(rng.choice([0, 1, 2])),
                                  metric_dict={"gamma": float(rng.choice([0.1, 1]))}, random_state=0)
    if name == "nw":
        return NadarayaWatsonRegressor(metric_dict={"gamma": float(rng.choice([0.1, 1, 10]))}, random_state=0)
    if name == "sk_lassocv":
        # cross-validated estimator: with fewer labelled samples than folds its fit fails half-way (attributes that satisfy
        # scikit-learn's fitted check already exist) - the documented fall-back must answer
        from sklearn.linear_model import LassoCV
        return SklearnRegressor(LassoCV(cv=3), random_state=0)
    if name == "skn_gp_alpha0":
        # no jitter: the fit fails on duplicated labelled rows, and an unfitted GaussianProcessRegressor predicts from its
        # prior (0 / 1) instead of raising NotFittedError
        from sklearn.gaussian_process import GaussianProcessRegressor
        return SklearnNormalRegressor(GaussianProcessRegressor(alpha=0.0, random_state=0), random_state=0)
    if name == "sk_pretrained_sgd":
        # the estimator parameter is a model trained elsewhere: after a failed fit its predictions must not come back
        from sklearn.linear_model import SGDRegressor
        Xp = np.round(rng.randn(30, 2), 3)
        return SklearnRegressor(SGDRegressor(random_state=0, max_iter=20, tol=None).fit(Xp, 3 * Xp[:, 0] + 10), random_state=0)
    if name == "sk_fail":
        return SklearnRegressor(FailingRegressor(), random_state=0)
    if name == "skn_fail":
        return SklearnNormalRegressor(FailingRegressor(), random_state=0)
    return models.REGRESSORS[name]()


def run_case(desc):
    steps.install()
    rng = gen.rng_for("c15", desc["seed"])
    name = desc["reg"]
    n = int(rng.randint(max(2, desc["nl"]), 12))
    d = int(rng.randint(1, 3))
    X = np.round(rng.randn(n, d), 3)
    yt = np.round(rng.randn(n) * 2 + 1, 2)
    if (desc["seed"] >> 5) % 4 == 0:
        yt[:] = yt[0]            # all labels identical: the empirical label standard deviation is exactly 0
    lab = np.zeros(n, bool)
    lab[rng.choice(n, size=min(desc["nl"], n), replace=False)] = True
    if name == "skn_gp_alpha0" and lab.sum() >= 2 and (desc["seed"] >> 3) % 2:
        i0, i1 = np.flatnonzero(lab)[:2]
        X[i1] = X[i0]          # duplicated labelled rows: singular kernel matrix
    # every third case marks missing targets by a reserved number: the sentinel must not enter any label statistic
    ml = -7.5 if (desc["seed"] >> 9) % 3 == 0 else np.nan
    y = np.where(lab, yt, ml)
    Q = [X[:3], np.round(rng.randn(3, d), 3)]
    if desc["far"] == "far":
        Q.append(np.round(rng.randn(3, d), 3) + 500.0)
    elif desc["far"] == "subnormal":
        # distances at which exp(-gamma * dist^2) is subnormal or just underflows for gamma in {0.1, 1, 10}
        for r in (8.6, 27.2, 27.3, 86.0, 86.3):
            q = X[lab][:1].copy() if lab.any() else X[:1].copy()
            q[0, 0] += r
            Q.append(q)
    Q = np.vstack(Q)
    if (desc["seed"] >> 13) % 4 == 0:
        X, Q = X.astype(np.float32), Q.astype(np.float32)      # single-precision features are legal input
    reg = _make(name, rng)
    reg.set_params(missing_label=ml)
    viol = []
    comp = type(reg).__name__ + ("(%s)" % type(reg.estimator).__name__ if hasattr(reg, "estimator") else "")
    ctx = "reg=%s labelled=%d n=%d missing_label=%r" % (name, int(lab.sum()), n, ml)

    def add(kind, detail):
        if not any(v["kind"] == kind for v in viol):
            viol.append({"component": comp, "kind": kind, "detail": "%s: %s" % (ctx, detail), "trigger": "any"})

    probabilistic = hasattr(reg, "predict_target_distribution")
    min_mass = None
    fail_fit = name.endswith("_fail") or (lab.sum() == 0 and name.startswith("sk")) or (name == "sk_lassocv" and lab.sum() < 3)
    try:
        steps.begin()
        import warnings as _w
        with _w.catch_warnings(record=True) as caught:
            _w.simplefilter("always")
            reg.fit(X, y)
        # the wrapper itself announces when the wrapped estimator could not be fitted: then the documented fall-back answers
        announced_failure = any("could not be fitted" in str(c.message) for c in caught)
        mu = np.asarray(reg.predict(Q), dtype=float)
        if mu.shape != (len(Q),):
            add("predict-wrong-shape", "%s" % (mu.shape,))
        if probabilistic:
            rv = reg.predict_target_distribution(Q)
            mu2, sd, ent = reg.predict(Q, return_std=True, return_entropy=True)
            contracts.count("C15.predict-vs-distribution")
            if not np.array_equal(mu, rv.mean(), equal_nan=True) or not np.array_equal(np.asarray(mu2), mu, equal_nan=True):
                add("predict-is-not-the-distribution-mean", "predict %r vs mean %r" % (mu.tolist()[:4], np.asarray(rv.mean()).tolist()[:4]))
            if not np.array_equal(np.asarray(sd), rv.std(), equal_nan=True):
                add("std-is-not-the-distribution-std", "%r vs %r" % (np.asarray(sd).tolist()[:4], np.asarray(rv.std()).tolist()[:4]))
            if not np.array_equal(np.asarray(ent), rv.entropy(), equal_nan=True):
                add("entropy-is-not-the-distribution-entropy", "%r vs %r" % (np.asarray(ent).tolist()[:4], np.asarray(rv.entropy()).tolist()[:4]))
            sd = np.asarray(sd, dtype=float)
            if isinstance(reg, NICKernelRegressor):
                md = reg.metric_dict or {}
                if lab.any():
                    N = pairwise_kernels(Q, X[lab], metric=reg.metric, **md).sum(axis=1)
                else:
                    N = np.zeros(len(Q))
                min_mass = float(N.min())
                # (1 + kappa)/kappa overflows for kappa below ~1e-308: with an improper kappa_0 = 0 and a subnormal kernel
                # mass the correctly rounded scale is inf; finiteness is only demanded in the normal range
                must = (reg.kappa_0 + N > 1e-290) & (reg.nu_0 + N > 2 + 1e-9)
            else:
                must = np.ones(len(Q), bool)
            bad = must & (~np.isfinite(sd) | (sd < 0) | ~np.isfinite(mu))
            if bad.any():
                i = int(np.flatnonzero(bad)[0])
                add("mean-or-std-not-finite", "query %d (kernel mass %s): mean %r std %r although the posterior variance is finite" % (
                    i, None if min_mass is None else float(N[i]), mu[i], sd[i]))
            # sample_y
            contracts.count("C15.sample_y-contract")
            ok_rows = np.isfinite(sd) & np.isfinite(mu) & (sd > 0)
            if ok_rows.any():
                Qs = Q[ok_rows]
                rs_a = [5, 0][(desc["seed"] >> 11) % 2]          # 0 is a seed like any other
                if hasattr(reg, "random_state"):
                    reg.set_params(random_state=None) if (desc["seed"] >> 12) % 2 else None   # the call's seed decides
                s1 = np.asarray(reg.sample_y(Qs, n_samples=3, random_state=rs_a))
                s2 = np.asarray(reg.sample_y(Qs, n_samples=3, random_state=rs_a))
                if s1.shape != (len(Qs), 3):
                    add("sample_y-wrong-shape", "%s != %s" % (s1.shape, (len(Qs), 3)))
                if not np.array_equal(s1, s2, equal_nan=True):
                    add("sample_y-not-reproducible", "two calls with random_state=%d differ" % rs_a)
                s3 = np.asarray(reg.sample_y(Qs, n_samples=3, random_state=6))
                # a spread below the rounding unit of the mean legitimately yields samples equal to the mean
                # (1e-3: a Gaussian process whose covariance matrix is ~1e-10 samples exactly its mean - scikit-learn clips
                # the tiny eigenvalues)
                wide = (sd[ok_rows] > 1e-3 * (1.0 + np.abs(mu[ok_rows]))).any()
                if wide and s1.shape == s3.shape and np.array_equal(s1, s3):
                    add("sample_y-ignores-random_state", "random_state=%d and 6 give identical samples" % rs_a)
        # ---- documented fall-back of the wrappers
        if name.startswith("sk"):
            contracts.count("C15.fallback-contract")
            if lab.sum() == 0:
                if not np.allclose(mu, 0.0):
                    add("fallback-mean-not-zero-without-labels", "%r" % mu.tolist()[:4])
                if hasattr(reg, "partial_fit") and hasattr(reg.estimator, "partial_fit"):
                    # every further fitting attempt without a label fails as well: the fall-back keeps answering
                    with _w.catch_warnings():
                        _w.simplefilter("ignore")
                        reg.partial_fit(X[: max(1, n // 2)], y[: max(1, n // 2)])
                    mu_b = np.asarray(reg.predict(Q), dtype=float)
                    contracts.count("C15.fallback-after-failing-partial_fit")
                    if not np.allclose(mu_b, 0.0):
                        add("fallback-lost-after-a-failing-partial_fit", "fit and partial_fit without any label, then predict: %r" % mu_b.tolist()[:4])
            elif name.endswith("_fail") or (name == "sk_lassocv" and lab.sum() < 3) or announced_failure:
                if not np.allclose(mu, np.mean(yt[lab])):
                    add("fallback-mean-not-the-label-mean", "%r vs %r" % (mu.tolist()[:3], float(np.mean(yt[lab]))))
                if probabilistic:
                    want = np.std(yt[lab]) if lab.sum() > 1 else 1.0
                    if not np.allclose(sd, want):
                        add("fallback-std-not-the-label-std", "%r vs %r" % (sd.tolist()[:3], float(want)))
        else:
            contracts.count("C15.fallback-contract", 0)
    except steps.StepBudgetExceeded as ex:
        add("step-budget-exceeded", str(ex))
    except Exception as ex:
        # SVR / LinearRegression with a single label etc. must fall back, not raise; NW needs >= 1 label (documented)
        if name == "nw" and lab.sum() == 0:
            return {"status": "skip", "skip_reason": "NadarayaWatsonRegressor needs >= 1 label"}
        add("raises:%s" % type(ex).__name__, str(ex)[:200])
    finally:
        steps.end()
    nontrivial = lab.sum() <= 1 or (min_mass is not None and min_mass < 1e-300) or fail_fit
    return {"status": "ok", "violations": viol, "nontrivial": bool(nontrivial),
            "nt_key": "%s|nl%d|%s|n%d|%d" % (name, int(lab.sum()), desc["far"], n, desc["seed"] % 997),
            "cells": ["reg=%s" % name, "nl=%d" % min(int(lab.sum()), 3)], "monitors": contracts.drain_evals(),
            "observed": {"reg": name, "labelled": int(lab.sum()), "query": desc["far"], "min_kernel_mass": min_mass,
                         "params": {k: v for k, v in reg.get_params(deep=False).items() if isinstance(v, (int, float, dict))}}}
