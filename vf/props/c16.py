"""C16 - label encoding round-trips and missing-label predicates agree."""
import numpy as np

from vf import gen
from vf.core import stable_hash
from vf.monitors import fcontracts as fc
from vf.oracles import is_missing

PROPERTY = "C16"
TECHNIQUE = "icontract post-conditions on is_labeled/is_unlabeled/(un)labeled_indices/ExtLabelEncoder with an independent pure-Python reference, plus algebraic round-trip oracle, over generated label arrays"
RULE = ("cases = label array (dtype float/int/str/object x sentinel NaN/None/number/string incl. '' x shape (0,), (n,), (n,m) x "
        "missing pattern none/some/all x list-or-array x with/without explicit class list); icontract contracts on the six functions "
        "compare every result with an element-wise pure-Python reference (own equality with the sentinel); the driver additionally "
        "checks is_labeled == ~is_unlabeled, ordered index enumeration, sorted classes -> 0..K-1, missing -> -1 and "
        "inverse_transform(transform(y)) == y. Non-trivial = array non-empty with both missing and present entries; distinct by "
        "(sentinel kind, shape class, missing fraction class, container, explicit classes, seed).")
ASSUMPTIONS = ["the reference predicate vf.oracles.is_missing is itself trusted (40 lines, element-wise)",
               "inputs the functions reject with TypeError by documented validation (mixed str/number lists) are not generated"]
REQUIRED_MONITORS = ["is_unlabeled", "is_labeled", "unlabeled_indices", "labeled_indices", "ExtLabelEncoder.transform",
                     "ExtLabelEncoder.inverse_transform", "C16.round-trip-oracle"]
SENT = [("str_prefix", "nan", "<U3", ["n", "na", "y"]),      # labels that are prefixes of the (longer) sentinel
        ("nan", np.nan, float, [0.5, 1.0, 2.0]), ("nan32", np.float32("nan"), float, [0.5, 1.0, 2.0]), ("none_num", None, object, [1, 2, 3]),
        ("none_str", None, object, ["a", "b", "c"]), ("neg1", -1, int, [0, 3, 7]), ("neg1f", -1.0, int, [0, 3, 7]), ("float_s", -1.5, float, [0.0, 1.0, 2.5]),
        ("int99", 99, int, [10, 20, 30]), ("str_s", "zz", "<U2", ["a", "b", "c"]), ("empty", "", "<U2", ["a", "b", "c"]),
        # a sentinel that single precision cannot represent exactly, stored in a float32 array
        ("f32_nonrep", -999.9, np.float32, [0.5, 1.0, 2.0])]
_ready = [False]


def setup():
    if _ready[0]:
        return
    import skactiveml.utils._label as L
    import skactiveml.utils._label_encoder as LE
    import skactiveml.utils  # noqa

    def post_unl(a, result, old):
        y, ml = a["y"], a.get("missing_label", np.nan)
        ref = is_missing(np.asarray(y), ml) if len(y) else np.zeros(np.shape(y), bool)
        r = np.asarray(result)
        if r.shape != ref.shape or r.dtype != bool or not np.array_equal(r, ref):
            fc.record("is_unlabeled", "wrong-mask", "y=%r ml=%r -> %r, reference %r" % (_short(y), ml, r.tolist(), ref.tolist()))

    def post_lab(a, result, old):
        y, ml = a["y"], a.get("missing_label", np.nan)
        ref = ~is_missing(np.asarray(y), ml) if len(y) else np.zeros(np.shape(y), bool)
        r = np.asarray(result)
        if r.shape != ref.shape or not np.array_equal(r, ref):
            fc.record("is_labeled", "wrong-mask", "y=%r ml=%r -> %r, reference %r" % (_short(y), ml, r.tolist(), ref.tolist()))

    def mk_idx(name, want_missing):
        def post(a, result, old):
            y, ml = np.asarray(a["y"]), a.get("missing_label", np.nan)
            if y.size == 0:
                return
            m = is_missing(y, ml)
            m = m if want_missing else ~m
            pos = np.argwhere(m)
            ref = pos[:, 0] if y.ndim == 1 else pos
            if not np.array_equal(np.asarray(result), ref):
                fc.record(name, "wrong-indices", "y=%r ml=%r -> %r, reference %r" % (_short(y), ml, np.asarray(result).tolist(), ref.tolist()))
        return post

    fc.install(L, "is_unlabeled", post_unl)
    fc.install(L, "is_labeled", post_lab)
    fc.install(L, "unlabeled_indices", mk_idx("unlabeled_indices", True))
    fc.install(L, "labeled_indices", mk_idx("labeled_indices", False))

    def post_transform(a, result, old):
        self, y = a["self"], np.asarray(a["y"])
        ml = self.missing_label
        classes = list(self.classes_)
        r = np.asarray(result)
        if r.shape != y.shape:
            fc.record("ExtLabelEncoder.transform", "wrong-shape", "%s vs %s" % (r.shape, y.shape))
            return
        srt = sorted(classes)
        if classes != srt:
            fc.record("ExtLabelEncoder.transform", "classes-not-sorted", "%r" % classes)
        m = is_missing(y, ml) if y.size else np.zeros(y.shape, bool)
        for yy, rr, mm in zip(y.ravel().tolist(), r.ravel().tolist(), m.ravel().tolist()):
            want = -1 if mm else srt.index(yy) if yy in srt else None
            if want is None:
                continue
            if rr != want:
                fc.record("ExtLabelEncoder.transform", "wrong-code", "label %r -> %r, expected %r (classes %r, ml %r)" % (yy, rr, want, srt, ml))
                return

    def post_inverse(a, result, old):
        self, y = a["self"], np.asarray(a["y"])
        srt = sorted(list(self.classes_))
        r = np.asarray(result)
        if r.shape != y.shape:
            fc.record("ExtLabelEncoder.inverse_transform", "wrong-shape", "%s vs input %s" % (r.shape, y.shape))
            return
        for code, lab in zip(y.ravel().tolist(), r.ravel().tolist()):
            if code == -1:
                ok = _eq(lab, self.missing_label)
            elif 0 <= code < len(srt):
                ok = _eq(lab, srt[int(code)])
            else:
                continue
            if not ok:
                fc.record("ExtLabelEncoder.inverse_transform", "wrong-label", "code %r -> %r (classes %r, ml %r)" % (code, lab, srt, self.missing_label))
                return

    fc.install_method(LE.ExtLabelEncoder, "transform", post_transform)
    fc.install_method(LE.ExtLabelEncoder, "inverse_transform", post_inverse)
    _ready[0] = True


def _short(y):
    return np.asarray(y).tolist() if np.size(y) <= 12 else "array%s" % (np.shape(y),)


def _eq(a, b):
    if a is None or b is None:
        return a is None and b is None
    if isinstance(a, (float, np.floating)) and a != a:
        return isinstance(b, (float, np.floating)) and b != b
    try:
        return bool(a == b)
    except Exception:
        return False


def gen_cases(tier, seed):
    n = {"quick": 1500, "thorough": 150000}[tier]
    cases = []
    for i in range(n):
        s = stable_hash(seed, "C16", i)
        cases.append({"id": "c16-%05d" % i, "seed": s, "sent": SENT[i % len(SENT)][0], "shape": i // len(SENT) % 3,
                      "frac": [0.0, 0.4, 1.0, 0.7][(i // (3 * len(SENT))) % 4], "as_list": bool((s >> 3) % 4 == 0),
                      "use_classes": bool((s >> 6) % 2)})
    return cases


def required_cells(tier):
    return ["sent=%s" % s[0] for s in SENT] + ["shape=%d" % i for i in range(3)]


def run_case(desc):
    setup()
    import skactiveml.utils as U
    rng = gen.rng_for("c16", desc["seed"])
    name, ml, dt, classes = next(s for s in SENT if s[0] == desc["sent"])
    shape = [(0,), (int(rng.randint(1, 9)),), (int(rng.randint(1, 6)), int(rng.randint(1, 4)))][desc["shape"]]
    y = np.empty(shape, dtype=dt)
    mask = rng.rand(*shape) < desc["frac"]
    flat, mflat = y.reshape(-1), mask.reshape(-1)
    for i in range(flat.size):
        flat[i] = ml if mflat[i] else classes[rng.randint(3)]
    if y.size and not mask.any() and (desc["seed"] >> 9) % 2:
        # no missing entry: natural (possibly narrower) dtype, as built from the labels alone
        y = np.array(y.tolist())
        flat = y.reshape(-1)
    # (an empty list carries no label type at all; a list of Python floats would not hold the single-precision sentinel)
    arg = y.tolist() if desc["as_list"] and name != "f32_nonrep" else y
    fc.drain()
    viol = []

    def add(comp, kind, detail):
        viol.append({"component": comp, "kind": kind, "detail": detail, "trigger": "any"})

    try:
        u = U.is_unlabeled(arg, missing_label=ml)
        l = U.is_labeled(arg, missing_label=ml)
        if not np.array_equal(np.asarray(l), ~np.asarray(u)):
            add("is_labeled", "not-complement", "y=%r ml=%r" % (_short(y), ml))
        if not np.array_equal(np.asarray(u).reshape(mask.shape), mask):
            add("is_unlabeled", "wrong-mask", "y=%r ml=%r got %r want %r" % (_short(y), ml, np.asarray(u).tolist(), mask.tolist()))
        if y.size:
            ui = U.unlabeled_indices(arg, missing_label=ml)
            li = U.labeled_indices(arg, missing_label=ml)
            eu, el = np.argwhere(mask), np.argwhere(~mask)
            if y.ndim == 1:
                eu, el = eu[:, 0], el[:, 0]
            if not np.array_equal(ui, eu):
                add("unlabeled_indices", "wrong-indices", "y=%r ml=%r got %r" % (_short(y), ml, np.asarray(ui).tolist()))
            if not np.array_equal(li, el):
                add("labeled_indices", "wrong-indices", "y=%r ml=%r got %r" % (_short(y), ml, np.asarray(li).tolist()))
        use_classes = desc["use_classes"]
        if use_classes or (y.size and (~mask).any()):
            le = U.ExtLabelEncoder(classes=classes if use_classes else None, missing_label=ml)
            enc = le.fit_transform(arg)
            dec = le.inverse_transform(enc)
            fc.count("C16.round-trip-oracle")
            want_classes = sorted(set(classes)) if use_classes else sorted(set(flat[~mflat].tolist()))
            if list(le.classes_) != want_classes:
                add("ExtLabelEncoder", "classes-not-sorted-unique", "%r vs %r" % (list(le.classes_), want_classes))
            if (np.asarray(enc)[mask] != -1).any():
                add("ExtLabelEncoder", "missing-not-minus-one", "y=%r enc=%r" % (_short(y), np.asarray(enc).tolist()))
            if np.asarray(enc).shape != y.shape:
                add("ExtLabelEncoder", "wrong-shape", "%s" % (np.asarray(enc).shape,))
            else:
                codes = np.asarray(enc)[~mask]
                wantc = [want_classes.index(v) for v in flat[~mflat].tolist()]
                if codes.tolist() != wantc:
                    add("ExtLabelEncoder", "wrong-code", "y=%r enc=%r" % (_short(y), np.asarray(enc).tolist()))
            if np.asarray(dec).shape != y.shape:
                add("ExtLabelEncoder", "round-trip-changes-shape", "y shape %s -> %s" % (y.shape, np.asarray(dec).shape))
            elif not all((m and bool(is_missing(np.asarray(dec).reshape(-1)[i:i + 1], ml)[0])) or _eq(d, o) for i, (d, o, m) in enumerate(
                    zip(np.asarray(dec).reshape(-1).tolist(), flat.tolist(), mflat.tolist()))):
                # (a missing entry comes back as the missing label, in the data type of the decoded array)
                add("ExtLabelEncoder", "round-trip-fails", "y=%r -> %r -> %r" % (_short(y), np.asarray(enc).tolist(), np.asarray(dec).tolist()))
            # ---- the array the encoder was fitted on gets a label in place (the usual loop), then is transformed again
            if mask.any() and (~mask).any():
                y3 = y.copy()
                le3 = U.ExtLabelEncoder(classes=classes if use_classes else None, missing_label=ml).fit(y3)
                pos = tuple(np.argwhere(mask)[0])
                newlab = flat[~mflat][0]
                y3[pos] = newlab
                enc3 = np.asarray(le3.transform(y3))
                fc.count("C16.transform-after-in-place-labelling")
                if enc3[pos] != want_classes.index(newlab):
                    add("ExtLabelEncoder", "transform-ignores-label-written-into-the-fitted-array",
                        "fit(y), y%r = %r, transform(y)%r = %r, expected %r" % (list(pos), newlab, list(pos), enc3[pos], want_classes.index(newlab)))
            # ---- the same encoder object fitted again with another class list (set_params / copy / pickle in between)
            # must behave like a fresh encoder built with that list
            classes2 = sorted(set(classes))[:2]
            y2 = np.array([classes2[i % 2] for i in range(3)] + [ml], dtype=dt)
            how = (desc["seed"] >> 12) % 3
            used = le
            if how == 1:
                import copy
                used = copy.deepcopy(le)
            elif how == 2:
                import pickle
                used = pickle.loads(pickle.dumps(le))
            used.set_params(classes=list(classes2))
            e_used = np.asarray(used.fit_transform(y2)).tolist()
            fresh = U.ExtLabelEncoder(classes=list(classes2), missing_label=ml)
            e_fresh = np.asarray(fresh.fit_transform(y2)).tolist()
            fc.count("C16.refit-oracle")
            if list(used.classes_) != list(fresh.classes_) or e_used != e_fresh:
                add("ExtLabelEncoder", "refit-with-other-classes-differs-from-fresh-encoder",
                    "after %s: classes_ %r codes %r, fresh encoder: classes_ %r codes %r" % (
                        ["set_params", "deepcopy + set_params", "pickle + set_params"][how], list(used.classes_), e_used,
                        list(fresh.classes_), e_fresh))
    except Exception as ex:
        add("label-utils", "exception:%s" % type(ex).__name__, "y=%r ml=%r: %s" % (_short(y), ml, str(ex)[:150]))
    for v in fc.drain():
        v["trigger"] = "any"
        viol.append(v)
    nontrivial = y.size > 0 and mask.any() and (~mask).any()
    return {"status": "ok", "violations": viol, "nontrivial": bool(nontrivial),
            "nt_key": "%s|s%d|f%s|l%d|c%d|%d" % (name, desc["shape"], desc["frac"], desc["as_list"], desc["use_classes"], desc["seed"] % 997),
            "cells": ["sent=%s" % name, "shape=%d" % desc["shape"]], "monitors": fc.drain_evals(),
            "observed": {"sentinel": repr(ml), "dtype": str(np.dtype(dt)), "y": _short(y), "as_list": desc["as_list"]}}
