"""C05 - pool query has no side effects on caller data, models or settings."""
import pickle

import numpy as np
from sklearn.base import clone

from vf import gen, poolcase, triggers
from vf.core import stable_hash
from vf.monitors import contracts, state as st, steps, writes
from vf.props import _pool_batch as pb
from vf.registry import POOL, missing_from_registry
from vf import multiannot

PROPERTY = "C05"
TECHNIQUE = "before/after structural fingerprints of all call arguments, models and get_params + constructor-parameter write monitor + write-protected input arrays (a write raises at the writing statement) + clone/pickle probes around every pool query"
RULE = ("cases = registry entry (incl. lazy-default and caller-owned-dict variants) x wrapper {none, SubSamplingWrapper, "
        "ParallelUtilityEstimationWrapper, SingleAnnotatorWrapper} plus IntervalEstimationThreshold x model passing mode "
        "{unfitted + fit=True, pre-fitted + fit=False} x optional sample_weight / utility_weight x 1-3 consecutive queries; "
        "byte-wise fingerprints of every array argument, get_params(deep=True) of strategy and models (dict contents "
        "included), fitted attributes of the models, write-monitor events on caller-owned constructor parameters, "
        "pickle.dumps/clone after the query, and equality of the answers of a post-query clone and a fresh object; every third case "
        "passes all arrays with writeable=False, so that even a write that is undone before the call returns raises inside the "
        "package (reported with file:line; a rejection raised inside third-party code is counted, not judged). "
        "Non-trivial = configuration resolves a lazy default, passes a caller-owned dict, a pre-fitted model or a wrapper; "
        "distinct by (entry, wrapper, fit mode, weights, n_queries, data, labels, cmode).")
ASSUMPTIONS = [
    "a write that leaves all bytes, parameters and fitted attributes equal is only visible to the write monitor (constructor parameters)",
]
REQUIRED_MONITORS = ["C05.side-effect-contract", "C05.write-monitor-armed", "C05.read-only-sentinel"]
WRAPS = ["none", "none", "sub", "par", "saw"]
FIT_FLAG = {"clf": "fit_clf", "reg": "fit_reg", "ensemble": "fit_ensemble"}


def gen_cases(tier, seed):
    reps = {"quick": 5, "thorough": 150}[tier]
    cases = []
    for name, e in POOL.items():
        r = max(2, reps // e.slow)
        for i in range(r):
            s = stable_hash(seed, "C05", name, i)
            cases.append({"entry": name, "seed": s, "wrap": WRAPS[(i + s) % len(WRAPS)] if i else "none", "prefit": [False, True, "other"][(i + (s >> 13)) % 3],
                          "weights": bool((s >> 3) % 2), "nq": 1 + (s >> 5) % 3,
                          "nmax": 12 if tier == "quick" else 24})
    r = {"quick": 12, "thorough": 300}[tier]
    for i in range(r):
        cases.append({"entry": "IntervalEstimationThreshold", "seed": stable_hash(seed, "C05", "iet", i),
                      "wrap": "iet", "prefit": bool(i % 2), "weights": False, "nq": 1 + i % 2,
                      "nmax": 12 if tier == "quick" else 24})
    for i, c in enumerate(cases):
        c["id"] = "%s-%s-%04d" % (c["entry"], c["wrap"], i)
    return cases


def required_cells(tier):
    return ["%s|sideeffects" % n for n in POOL] + ["wrap=%s" % w for w in ("sub", "par", "saw", "iet")]


def _arrays_fp(kw):
    return {k: st.fp(v) for k, v in kw.items() if isinstance(v, np.ndarray)}


def _models(kw):
    out = {}
    for k, v in kw.items():
        if hasattr(v, "get_params") or (isinstance(v, list) and v and hasattr(v[0], "get_params")):
            out[k] = v
    return out


def _model_fp(m, skip_rng):
    skip = ("random_state_",) if skip_rng else ()
    if isinstance(m, list):
        return ("list", tuple((st.params_fp(x), st.fitted_fp(x, skip)) for x in m))
    return (st.params_fp(m), st.fitted_fp(m, skip))


def _same(a, b):
    ia, ua = a
    ib, ub = b
    return np.array_equal(np.asarray(ia), np.asarray(ib)) and np.allclose(
        np.asarray(ua, float), np.asarray(ub, float), rtol=1e-9, atol=1e-12, equal_nan=True)


def run_case(desc):
    pb.setup()
    writes.install()
    miss = missing_from_registry()
    if miss:
        return {"status": "inconclusive", "reason": "exported strategies not in registry: %s" % miss}
    wrap = desc["wrap"]
    rng = gen.rng_for("c05", desc["seed"])
    if wrap == "iet":
        call = multiannot.build_iet_call(desc, rng)
    else:
        c, why = poolcase.build_in_domain(dict(desc, cmode="none" if wrap == "saw" else None))
        if why:
            return {"status": "skip", "skip_reason": why}
        if wrap == "par" and c.cmode == "idx_any":
            return {"status": "skip", "skip_reason": "parallel wrapper: unlabelled candidates only"}
        call = _build_call(c, desc, wrap, rng)
        if call is None:
            return {"status": "skip", "skip_reason": "wrapper not applicable"}
    make, kw, label, comp, fit_mode = call["make"], call["kw"], call["label"], call["comp"], call["fit_mode"]
    if desc["seed"] % 3 == 0:
        # random_state given as a RandomState instance: the caller's generator is a parameter like any other and must
        # not be advanced by a query (get_params fingerprints include the full generator state)
        base_make = make

        def make():
            q = base_make()
            rs = q.get_params(deep=False).get("random_state")
            if isinstance(rs, (int, np.integer)):
                q.set_params(random_state=np.random.RandomState(int(rs)))
            return q
    qs = make()
    viol = []

    def add(kind, detail, component=None):
        viol.append({"component": component or comp, "kind": kind, "detail": detail})

    try:
        pickle.dumps(qs)
        picklable_before = True
    except Exception:
        picklable_before = False
    writes.reset()
    writes.watch(qs, "strategy")
    models = _models(kw)
    for k, m in models.items():
        writes.watch(m, k)
    contracts.count("C05.write-monitor-armed")
    arr_before = _arrays_fp(kw)
    qs_before = st.params_fp(qs)
    mod_before = {k: _model_fp(m, False) for k, m in models.items()}
    outs = []
    err = None
    # every third case hands the arrays over write-protected: a write inside the package then raises at the writing
    # statement, even if the bytes would have been restored before the call returns (invisible to the fingerprints)
    readonly = (desc["seed"] >> 9) % 3 == 0
    if readonly:
        for v in kw.values():
            if isinstance(v, np.ndarray):
                v.flags.writeable = False
        contracts.count("C05.read-only-sentinel")
    for q in range(desc["nq"]):
        steps.begin()
        try:
            outs.append(qs.query(**kw))
        except steps.StepBudgetExceeded as ex:
            err = "step budget: %s" % ex
            break
        except Exception as ex:
            err = "%s: %s" % (type(ex).__name__, str(ex)[:200])
            if readonly and "read-only" in str(ex):
                import traceback
                tb = traceback.extract_tb(ex.__traceback__)
                last = tb[-1]
                if "/skactiveml/" in last.filename.replace("\\", "/"):
                    add("writes-to-write-protected-input", "%s at %s:%d (%s): %s" % (
                        type(ex).__name__, last.filename.split("/skactiveml/")[-1], last.lineno, last.name, (last.line or "").strip()))
                else:
                    contracts.count("C05.third-party-rejects-read-only")
            break
        finally:
            steps.end()
    contracts.drain()
    contracts.count("C05.side-effect-contract")
    # ---- arrays
    for k, f in _arrays_fp(kw).items():
        if f != arr_before[k]:
            add("input-array-modified:%s" % k, "bytes of argument %r changed" % k)
    # ---- strategy parameters
    qs_after = st.params_fp(qs)
    if qs_after != qs_before:
        d = st.diff(qs_before, qs_after)
        add("get_params-changed", "strategy params differ at %s" % [x[0] for x in d][:6])
    for k, m in models.items():
        after = _model_fp(m, False)
        if after != mod_before[k]:
            d = st.diff(mod_before[k], after) if not isinstance(m, list) else []
            add("model-argument-modified:%s" % k, "model %r changed at %s" % (k, [x[0] for x in d][:6] or "(ensemble member)"))
    for ev in writes.drain():
        add("constructor-parameter-written:%s.%s" % (ev["cls"], ev["param"]),
            "write to %s.%s of caller-owned %s at %s in %s" % (ev["cls"], ev["param"], ev["obj"], ev["where"], ev["func"]),
            component=ev["cls"] if ev["obj"] != "strategy" else comp)
    writes.reset()
    # ---- clone / pickle after the query
    cloned = None
    try:
        cloned = clone(qs)
    except Exception as ex:
        add("clone-fails-after-query", repr(ex)[:200])
    if picklable_before:
        try:
            pickle.dumps(qs)
        except Exception as ex:
            add("pickle-fails-after-query", repr(ex)[:200])
    if err is None and cloned is not None and outs:
        try:
            fresh = make()
            kw2 = call["fresh_kw"]()
            a = fresh.query(**kw2)
            kw3 = call["fresh_kw"]()
            b = cloned.query(**kw3)
            if not _same(a, b):
                add("post-query-clone-behaves-differently", "fresh %s vs clone %s" % (
                    np.asarray(a[0]).tolist(), np.asarray(b[0]).tolist()))
        except Exception as ex:
            add("post-query-clone-raises", repr(ex)[:200])
    for v in viol:
        v["trigger"] = "any"
    nontrivial = call["lazy"] or fit_mode in ("prefit", "prefit_other") or wrap != "none"
    cells = ["wrap=%s" % wrap]
    if wrap != "iet":
        cells.append("%s|sideeffects" % desc["entry"])
    return {"status": "ok", "violations": viol, "nontrivial": bool(nontrivial),
            "nt_key": "%s|%s|%s|w%d|q%d|%s" % (desc["entry"], wrap, fit_mode, desc["weights"], desc["nq"], label),
            "cells": cells, "monitors": contracts.drain_evals(),
            "counters": {"queries": len(outs), "query_raised": int(err is not None)},
            "observed": {"call": label, "fit_mode": fit_mode, "arrays": sorted(arr_before), "models": sorted(models),
                         "n_queries": len(outs), "error": err}}


def _build_call(c, desc, wrap, rng):
    import skactiveml.pool as P
    from skactiveml.pool.multiannotator import SingleAnnotatorWrapper
    e = c.entry
    seed = c.strategy_seed
    lazy = bool(e.lazy)
    base_kw = dict(e.kwargs(c.ctx))
    fit_mode = "fit"
    fit_name = FIT_FLAG.get(e.model_arg)

    def model_kwargs():
        kw = dict(e.kwargs(c.ctx))
        if desc["prefit"] == "other" and fit_name and e.model_arg in kw:
            # the caller's model has been fitted before on OTHER data and is passed with the default fit_*=True: the
            # strategy must train a private copy and leave the caller's fitted model exactly as it is
            r2 = np.random.RandomState(seed % (2**31 - 1))
            X2 = c.X + r2.randn(*c.X.shape)
            y2 = c.y_true.copy() if c.kind != "reg" else np.round(r2.randn(c.n), 2)
            y2 = np.where(r2.rand(c.n) < 0.3, np.nan, y2)
            if np.isnan(y2).all():
                y2[0] = c.y_true[0]
            m = kw[e.model_arg]
            try:
                for x in (m if isinstance(m, list) else [m]):
                    x.fit(X2, y2)
                kw["__fitted_on_other_data__"] = True
            except Exception:
                return None
            return kw
        if desc["prefit"] is True and fit_name and e.model_arg in kw:
            m = kw[e.model_arg]
            try:
                if isinstance(m, list):
                    for x in m:
                        x.fit(c.X, c.y)
                else:
                    m.fit(c.X, c.y)
                kw[fit_name] = False
            except Exception:
                return None
        return kw

    mk = model_kwargs()
    if mk is None:
        mk = dict(e.kwargs(c.ctx))
    if mk.get(fit_name) is False:
        fit_mode = "prefit"
    if mk.pop("__fitted_on_other_data__", False):
        fit_mode = "prefit_other"
    sw = None
    if desc["weights"]:
        sw = rng.rand(c.n) + 0.1

    def full_kw(models):
        kw = dict(models)
        if sw is not None and "sample_weight" in _query_params(e):
            kw["sample_weight"] = sw.copy()
        if desc["weights"] and "utility_weight" in _query_params(e):
            nuw = len(c.cset) if c.cmode == "feat" else c.n
            if c.cmode != "feat":
                kw["utility_weight"] = np.linspace(0.5, 1.5, c.n)
        return kw

    if wrap == "none":
        make = lambda: e.make(seed)
        X, y, cand, bs = c.X, c.y, c.candidates, c.bs
        mk_kw = lambda models: dict(full_kw(models), X=X.copy(), y=y.copy(),
                                    candidates=None if cand is None else cand.copy(), batch_size=bs,
                                    return_utilities=True)
        comp = e.cls.__name__
    elif wrap == "sub":
        if c.cmode == "idx_any":
            return None
        frac = [0.5, 3, 0.3, 1.0][desc["seed"] % 4]
        excl = bool((desc["seed"] >> 2) % 2)
        make = lambda: P.SubSamplingWrapper(e.make(seed), max_candidates=frac, exclude_non_subsample=excl,
                                            random_state=seed)
        X, y, cand, bs = c.X, c.y, c.candidates, c.bs
        mk_kw = lambda models: dict(full_kw(models), X=X.copy(), y=y.copy(),
                                    candidates=None if cand is None else cand.copy(), batch_size=bs,
                                    return_utilities=True)
        comp = "SubSamplingWrapper(%s)" % e.cls.__name__
        lazy = True
    elif wrap == "par":
        # the parallel wrapper hands candidate chunks as feature rows to the wrapped strategy, which
        # therefore has to support feature-row candidates; per-sample weights cannot be chunked
        if not e.independent or not e.feat:
            return None
        sw = None
        desc = dict(desc, weights=False)
        pd = {"backend": "threading"}
        make = lambda: P.ParallelUtilityEstimationWrapper(e.make(seed), n_jobs=2, parallel_dict=pd, random_state=seed)
        X, y, cand = c.X, c.y, c.candidates
        mk_kw = lambda models: dict(full_kw(models), X=X.copy(), y=y.copy(),
                                    candidates=None if cand is None else cand.copy(), batch_size=1,
                                    return_utilities=True)
        comp = "ParallelUtilityEstimationWrapper(%s)" % e.cls.__name__
        lazy = True
    elif wrap == "saw":
        if c.kind != "clf" or e.name.startswith("Quire") or not e.arbitrary_index_ok:
            # partially annotated samples are offered as candidates: inner strategies that are only defined on
            # unlabelled candidates are outside this check (see C07 / known finding G22)
            return None
        from vf import multiannot
        Y = multiannot.make_label_matrix(rng, c.y_true, c.lab, 3, c.classes)
        make = lambda: SingleAnnotatorWrapper(e.make(seed), random_state=seed)
        X = c.X
        bs = c.bs

        # further caller-owned arrays of the wrapper: annotator performances (incl. the all-equal case) and an array-valued
        # number of annotators per sample; availability is restricted so that the preferred numbers have to be clipped
        a_kind = ["none", "const", "vec", "mat"][(desc["seed"] >> 10) % 4]
        A_perf = {"none": None, "const": np.full(3, 0.7), "vec": np.round(rng.rand(3), 2), "mat": np.round(rng.rand(c.n, 3), 2)}[a_kind]
        nps = np.array([3, 2, 3]) if (desc["seed"] >> 12) % 2 else None

        def mk_kw(models):
            kw = full_kw(models)
            kw.pop("utility_weight", None)
            kw.pop("sample_weight", None)
            kw = dict(kw, X=X.copy(), y=Y.copy(), batch_size=bs, return_utilities=True)
            if A_perf is not None:
                kw["A_perf"] = A_perf.copy()
            if nps is not None:
                kw["n_annotators_per_sample"] = nps.copy()
                kw["batch_size"] = max(bs, 4)
            return kw
        comp = "SingleAnnotatorWrapper(%s)" % e.cls.__name__
        lazy = True
    else:
        return None
    kw = mk_kw(mk)

    def fresh_kw():
        m2 = model_kwargs()
        if m2 is None:
            m2 = dict(e.kwargs(c.ctx))
        m2.pop("__fitted_on_other_data__", None)
        return mk_kw(m2)

    return {"make": make, "kw": kw, "fresh_kw": fresh_kw, "label": "%s|%s|%s" % (c.data, c.labels, c.cmode),
            "comp": comp, "fit_mode": fit_mode, "lazy": lazy}


_QP = {}


def _query_params(e):
    import inspect
    if e.name not in _QP:
        try:
            _QP[e.name] = set(inspect.signature(e.cls.query).parameters)
        except Exception:
            _QP[e.name] = set()
    return _QP[e.name]
