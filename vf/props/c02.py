"""C02 - returned utilities agree with the returned selection."""
from vf.props import _pool_batch as pb

PROPERTY = "C02"
TECHNIQUE = "runtime post-condition contract on (indices, utilities) of every pool query over tie-heavy generated workloads"
RULE = ("same case grid as C01 with return_utilities=True; the contract checks shape (k, n_columns), NaN exactly at "
        "non-candidates and earlier picks, a number at the chosen position, chosen == row maximum for maximising "
        "strategies (exact comparison) and > 0 for sampling strategies (RandomSampling, Badge, Falcun). Non-trivial = "
        "(k >= 2 and some row has an exact tie at its maximum) or k >= 3; distinct by (entry, cmode, batch, data, labels, n, k).")
ASSUMPTIONS = [
    "-inf counts as a number (SubSamplingWrapper / RegressionTreeBasedAL use it for non-preferred candidates)",
    "calls that raise are judged by C01, not here",
]
REQUIRED_MONITORS = ["C02.utilities-contract"]
required_cells = pb.required_cells


def gen_cases(tier, seed):
    return pb.gen_cases("C02", tier, seed)


def run_case(desc):
    return pb.run_case(desc, "C02")
