#!/bin/bash
# Runs the repository's pinned suite with the verification guard OFF and
# compares the result with /root/.vp/BASELINE.json (every stable_pass test must pass).
# usage: run_baseline.sh [junit-out]      env BASELINE_JOBS=<n> uses pytest-xdist (own use only)
out=${1:-/tmp/skaml_baseline_$$.xml}
unset SKACTIVEML_VERIF
extra=""
if [ -n "$BASELINE_JOBS" ]; then extra="-n $BASELINE_JOBS"; fi
cd /repo && /venv/bin/python -m pytest -ra -q -p no:cacheprovider --timeout=900 \
    --continue-on-collection-errors --junitxml="$out" $extra >/dev/null 2>&1
# the visualization tests write PDF files next to their reference images: remove them, /repo stays as committed
git -C /repo clean -fdq skactiveml/visualization/tests/images
/venv/bin/python - "$out" <<'PY'
import sys, json, xml.etree.ElementTree as ET
base = json.load(open('/root/.vp/BASELINE.json'))
t = ET.parse(sys.argv[1]).getroot()
passed, failed = set(), set()
for tc in t.iter('testcase'):
    name = tc.get('classname') + '::' + tc.get('name')
    bad = any(ch.tag in ('failure', 'error') for ch in tc)
    skipped = any(ch.tag == 'skipped' for ch in tc)
    if bad:
        failed.add(name)
    elif not skipped:
        passed.add(name)
missing = sorted(set(base['stable_pass']) - passed)
print('passed', len(passed), 'failed', len(failed), 'baseline', len(base['stable_pass']),
      'baseline tests not passing', len(missing))
for m in missing[:50]:
    print('MISSING', m)
for f in sorted(failed)[:20]:
    print('FAILED', f)
sys.exit(1 if missing else 0)
PY
