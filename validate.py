#!/opt/veriftools/pyvenv/bin/python
"""Validates MANIFEST.json and evidence/*.json against the schemas (tooling venv has jsonschema)."""
import glob, json, sys, jsonschema
jsonschema.validate(json.load(open('MANIFEST.json')), json.load(open('/root/.vp/MANIFEST.schema.json')))
n = 0
for f in sorted(glob.glob('evidence/*.json')):
    jsonschema.validate(json.load(open(f)), json.load(open('/root/.vp/EVIDENCE.schema.json'))); n += 1
print('manifest valid;', n, 'evidence files valid')
