import numpy as np, warnings, sys, time, threading, collections
warnings.simplefilter("ignore")
sys.path.insert(0, '/tmp/probe')
from fp import fp
from skactiveml import stream as S
from skactiveml.classifier import ParzenWindowClassifier, SlidingWindowClassifier
print("== C03 random_state=None: global RNG restored by query?")
X = np.random.RandomState(0).randn(30, 2)
for name, mk in [('SRS', lambda: S.StreamRandomSampling(budget=0.3)), ('Split', lambda: S.Split(budget=0.3)), ('RandVar', lambda: S.RandomVariableUncertainty(budget=0.3)), ('CogRan', lambda: S.CognitiveDualQueryStrategyRan(budget=0.3))]:
    qs = mk(); clf = ParzenWindowClassifier(classes=[0,1], random_state=0).fit(X[:5], [0,1,0,1,0])
    kw = {} if name == 'SRS' else dict(clf=clf)
    np.random.seed(3)
    qs.query(X[:4], **kw)  # init
    g0 = fp(np.random.mtrand._rand)
    qs.query(X[:4], **kw); g1 = fp(np.random.mtrand._rand)
    print(name, 'global unchanged by query:', g0 == g1)
print("== SlidingWindow reference")
bad = 0
for seed in range(100):
    rng = np.random.RandomState(seed); ws = int(rng.randint(1, 8)); ol = bool(rng.rand() < 0.5)
    swc = SlidingWindowClassifier(ParzenWindowClassifier(classes=[0,1,2]), classes=[0,1,2], window_size=ws, only_labeled=ol)
    hist = []
    try:
        for step in range(rng.randint(1, 6)):
            k = rng.randint(1, 5); Xk = rng.randn(k, 2); yk = rng.randint(0, 3, k).astype(float); yk[rng.rand(k) < 0.4] = np.nan
            if step == 0 or rng.rand() < 0.2: swc.fit(Xk, yk); hist = []
            else: swc.partial_fit(Xk, yk)
            for x, yy in zip(Xk, yk):
                if not ol or not np.isnan(yy): hist.append((x, yy))
            hist = hist[-ws:]
        Xq = rng.randn(4, 2)
        if len(hist) == 0: continue
        ref = ParzenWindowClassifier(classes=[0,1,2]).fit(np.array([h[0] for h in hist]), np.array([h[1] for h in hist]))
        if not np.allclose(ref.predict_proba(Xq), swc.predict_proba(Xq)): bad += 1
    except Exception as e:
        print('EXC', seed, repr(e)[:80]); bad += 1
print('sliding window mismatches', bad)
print("== threading backend + yield injection")
from skactiveml.pool import ParallelUtilityEstimationWrapper, UncertaintySampling
import skactiveml.pool._uncertainty_sampling as us, skactiveml.base as base
mon = sys.monitoring; TOOL = 4; mon.use_tool_id(TOOL, 'yield')
trace = []
rs = np.random.RandomState(0); lock = threading.Lock()
def on_line(code, line):
    with lock:
        trace.append(threading.get_ident()); do = rs.rand() < 0.3
    if do: time.sleep(0)
mon.register_callback(TOOL, mon.events.LINE, on_line)
for f in [us.UncertaintySampling.query, base.PoolQueryStrategy._validate_data, base.SingleAnnotatorPoolQueryStrategy._validate_data]:
    mon.set_local_events(TOOL, f.__code__, mon.events.LINE)
Xb = np.random.RandomState(1).randn(40, 2); yb = np.full(40, np.nan); yb[:6] = [0,1,0,1,0,1]
clf = ParzenWindowClassifier(classes=[0,1], random_state=0)
ref = UncertaintySampling(random_state=0).query(Xb, yb, clf=clf, return_utilities=True)
scheds = set(); t0 = time.time(); ok = True
for i in range(20):
    trace.clear()
    w = ParallelUtilityEstimationWrapper(UncertaintySampling(random_state=0), n_jobs=4, parallel_dict={'backend': 'threading'}, random_state=0)
    out = w.query(Xb, yb, clf=clf, return_utilities=True)
    ok &= np.allclose(out[1], ref[1], equal_nan=True)
    ids = {t: k for k, t in enumerate(dict.fromkeys(trace))}
    scheds.add(tuple(ids[t] for t in trace))
print('equal to sequential:', ok, 'distinct interleavings:', len(scheds), 'threads seen', len(set(trace)), '%.2fs' % (time.time() - t0))
