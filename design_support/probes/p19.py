import numpy as np, warnings, sys, collections, re
warnings.simplefilter("ignore")
from sklearn.base import clone
from sklearn.naive_bayes import GaussianNB
from skactiveml.pool.utils import IndexClassifierWrapper
from skactiveml.classifier import ParzenWindowClassifier, SklearnClassifier
CL = [0,1,2]
def run(seed):
    rng = np.random.RandomState(seed)
    n = rng.randint(5, 12); d = 2
    X = rng.randn(n, d); y = rng.randint(0, 3, n).astype(float); y[rng.rand(n) < 0.4] = np.nan
    sw = rng.rand(n) + 0.1 if rng.rand() < 0.5 else None
    which = rng.choice(['pwc', 'pwc_speed', 'nb', 'nb_pf'])
    base = ParzenWindowClassifier(classes=CL, metric_dict={'gamma': 0.5}) if which.startswith('pwc') else SklearnClassifier(GaussianNB(), classes=CL)
    eus = bool(rng.rand() < 0.5)
    w = IndexClassifierWrapper(clone(base), X, y, sw, ignore_partial_fit=(which != 'nb_pf'), enforce_unique_samples=eus, use_speed_up=(which == 'pwc_speed'))
    if which == 'pwc_speed': w.precompute(np.arange(n), np.arange(n))
    cur = None; basem = None  # multisets: lists of (idx, y, w)
    ops = []; probs = []
    def ref_predict(ms, q):
        idx = np.array([t[0] for t in ms], int); yy = np.array([t[1] for t in ms], float)
        ww = None if sw is None else np.array([t[2] for t in ms], float)
        r = clone(base).fit(X[idx], yy, ww) if ww is not None else clone(base).fit(X[idx], yy)
        return r.predict_proba(X[q])
    for step in range(rng.randint(2, 8)):
        op = rng.choice(['fit', 'pfit', 'pfit_base'] if cur is not None else ['fit'])
        k = rng.randint(1, 4); idx = rng.choice(n, size=k, replace=False) if (eus or rng.rand() < 0.7) else rng.choice(n, size=k)
        if eus: idx = np.unique(idx)
        override = rng.rand() < 0.5
        yy = rng.randint(0, 3, len(idx)).astype(float) if override else None
        setb = bool(rng.rand() < 0.4)
        ys = yy if yy is not None else y[idx]; ws = [None]*len(idx) if sw is None else sw[idx]
        new = list(zip(idx.tolist(), ys.tolist(), ws))
        ops.append((op, idx.tolist(), None if yy is None else yy.tolist(), setb))
        try:
            if op == 'fit':
                w.fit(idx, y=yy, set_base_clf=setb); cur = new
            else:
                ub = op == 'pfit_base'
                if ub and basem is None: continue
                w.partial_fit(idx, y=yy, use_base_clf=ub, set_base_clf=setb)
                start = list(basem) if ub else list(cur)
                if eus: start = [t for t in start if t[0] not in idx.tolist()]
                cur = start + new
            if setb: basem = list(cur)
            q = np.arange(n)
            if which == 'nb_pf': continue  # reference differs (incremental); skip in probe
            got = w.predict_proba(q); exp = ref_predict(cur, q)
            if not np.allclose(got, exp, rtol=1e-7, atol=1e-9): probs.append('mismatch[%s eus=%s] after %s' % (which, eus, op)); break
        except Exception as ex:
            probs.append('EXC[%s eus=%s] %s %s' % (which, eus, op, re.sub(r'\d+','#',repr(ex))[:70])); break
    return probs
h = collections.Counter()
for s in range(int(sys.argv[1])):
    for p in run(s) or ['OK']: h[p] += 1
for k, v in h.most_common(): print(v, k)
