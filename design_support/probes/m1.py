import sys, time, warnings, numpy as np
warnings.simplefilter("ignore")
sys.path.insert(0, '/tmp/deps')
import icontract
print('icontract', icontract.__version__)
# (a) sys.monitoring step budget on skactiveml code objects only
import skactiveml, types, inspect
from skactiveml.pool.multiannotator import SingleAnnotatorWrapper
from skactiveml.pool import RandomSampling
mon = sys.monitoring
TOOL = 3
mon.use_tool_id(TOOL, 'verif-steps')
class StepBudget(Exception): pass
state = {'n': 0, 'budget': 200000, 'where': None}
def on_jump(code, src, dst):
    state['n'] += 1
    if state['n'] > state['budget']:
        state['where'] = (code.co_qualname, code.co_filename.split('/')[-1], dst)
        state['n'] = 0
        raise StepBudget(str(state['where']))
mon.register_callback(TOOL, mon.events.JUMP, on_jump)
ncode = 0
def all_codes(mod, seen):
    for name, obj in vars(mod).items():
        if inspect.isfunction(obj) and obj.__module__.startswith('skactiveml'):
            yield obj.__code__
        elif inspect.isclass(obj) and obj.__module__.startswith('skactiveml'):
            for n2, o2 in vars(obj).items():
                f = o2.__func__ if isinstance(o2, (staticmethod, classmethod)) else o2
                if inspect.isfunction(f): yield f.__code__
for mname, mod in list(sys.modules.items()):
    if mname.startswith('skactiveml') and mod is not None:
        for c in all_codes(mod, None):
            try: mon.set_local_events(TOOL, c, mon.events.JUMP); ncode += 1
            except Exception as e: print('ERR', e)
print('instrumented code objects', ncode)
X = np.random.RandomState(0).randn(3, 2); y = np.full((3, 3), np.nan)
A = np.array([[1,1,1],[0,0,0],[0,0,0]], bool)
qs = SingleAnnotatorWrapper(RandomSampling(random_state=1), random_state=1)
t0 = time.time()
for seed in range(20):
    qs = SingleAnnotatorWrapper(RandomSampling(random_state=seed), random_state=seed)
    try:
        state['n'] = 0
        out = qs.query(X, y, annotators=A, batch_size=2)
        res = 'returned'
    except StepBudget as e:
        res = 'STEP BUDGET: %s' % e
        break
print(res, '%.2fs' % (time.time() - t0))
# overhead test
from skactiveml.pool import UncertaintySampling
from skactiveml.classifier import ParzenWindowClassifier
Xb = np.random.RandomState(0).randn(200, 3); yb = np.full(200, np.nan); yb[:20] = np.arange(20) % 2
def work():
    for i in range(30): UncertaintySampling(random_state=0).query(Xb, yb, clf=ParzenWindowClassifier(classes=[0,1]), batch_size=5)
state['budget'] = 10**9
t0 = time.time(); work(); t_on = time.time() - t0
mon.set_events(TOOL, 0)
for mname, mod in list(sys.modules.items()):
    if mname.startswith('skactiveml') and mod is not None:
        for c in all_codes(mod, None): mon.set_local_events(TOOL, c, 0)
t0 = time.time(); work(); t_off = time.time() - t0
print('overhead on %.3f off %.3f jumps %d' % (t_on, t_off, state['n']))
