import numpy as np, warnings, sys, collections, re
warnings.simplefilter("ignore")
from skactiveml.utils import is_labeled, is_unlabeled, labeled_indices, unlabeled_indices, ExtLabelEncoder, rand_argmax, rand_argmin, simple_batch, compute_vote_vectors, majority_vote, ext_confusion_matrix
h = collections.Counter()
def note(k): h[k] += 1
rng = np.random.RandomState(0)
SENT = [('nan', np.nan, float, [0.5, 1.0, 2.0]), ('none_num', None, object, [1, 2, 3]), ('none_str', None, object, ['a', 'b', 'c']), ('neg1', -1, int, [0, 3, 7]), ('float_s', -1.5, float, [0.0, 1.0, 2.5]),
        ('str_s', 'zz', '<U2', ['a', 'b', 'c']), ('empty', '', '<U2', ['a', 'b', 'c'])]
for it in range(400):
    name, ml, dt, classes = SENT[rng.randint(len(SENT))]
    shape = [(0,), (rng.randint(1, 8),), (rng.randint(1, 6), rng.randint(1, 4))][rng.randint(3)]
    y = np.empty(shape, dtype=dt)
    mask = rng.rand(*shape) < rng.choice([0, 0.4, 1.0])
    flat = y.reshape(-1); mflat = mask.reshape(-1)
    for i in range(flat.size): flat[i] = ml if mflat[i] else classes[rng.randint(3)]
    try:
        u = is_unlabeled(y, ml); l = is_labeled(y, ml)
        if u.shape != y.shape or not np.array_equal(u, mask): note('is_unlabeled wrong [%s %s]' % (name, len(shape)))
        if not np.array_equal(l, ~u): note('not complement')
        if y.size:
            ui = unlabeled_indices(y, ml); li = labeled_indices(y, ml)
            exp = np.argwhere(mask); expu = exp[:, 0] if y.ndim == 1 else exp
            if not np.array_equal(ui, expu): note('unlabeled_indices wrong')
        use_classes = rng.rand() < 0.5
        le = ExtLabelEncoder(classes=classes if use_classes else None, missing_label=ml)
        if y.size == 0 and not use_classes: continue
        enc = le.fit_transform(y)
        dec = le.inverse_transform(enc)
        if use_classes or (~mask).any():
            if (enc[mask] != -1).any(): note('missing not -1')
            srt = sorted(set(classes)) if use_classes else sorted(set(flat[~mflat].tolist()))
            if list(le.classes_) != srt: note('classes_ not sorted-unique [%s]' % name)
            ok = all((d is None and o is None) or (isinstance(o, float) and o != o and d != d) or d == o for d, o in zip(dec.reshape(-1).tolist(), flat.tolist()))
            if not ok: note('roundtrip fail [%s]' % name)
        note('OK')
    except Exception as ex:
        note('EXC [%s shape%d] %s' % (name, len(shape), re.sub(r'\d+', '#', repr(ex))[:70]))
print('C16', dict(h))
# C18
h = collections.Counter()
for it in range(600):
    nd = rng.randint(1, 4); shape = tuple(rng.randint(1, 5, size=nd))
    a = rng.choice([-np.inf, -1., 0., 0.5, 1., np.inf], size=shape) if rng.rand() < 0.6 else rng.randn(*shape)
    a = a.astype(float); a[rng.rand(*shape) < rng.choice([0, 0.3])] = np.nan
    if np.isnan(a).all(): continue
    s = int(rng.randint(1000))
    try:
        i = rand_argmax(a, random_state=s); j = rand_argmax(a, random_state=s)
        if not np.array_equal(i, j): note('argmax not reproducible')
        if a[tuple(i)] != np.nanmax(a): note('argmax not max %s' % (a[tuple(i)],))
        i = rand_argmin(a, random_state=s)
        if a[tuple(i)] != np.nanmin(a): note('argmin not min')
        # axis variant
        if nd >= 2:
            ax = rng.randint(nd); 
            if not np.isnan(a).all(axis=ax).any():
                ii = rand_argmax(a, random_state=s, axis=ax)
                got = np.take_along_axis(a, np.expand_dims(ii, ax), ax).squeeze(ax)
                if not np.array_equal(got, np.nanmax(a, axis=ax)): note('argmax axis wrong')
        bs = int(rng.randint(1, a.size + 3)); nn = int((~np.isnan(a)).sum())
        bi, bu = simple_batch(a.copy(), random_state=s, batch_size=bs, return_utilities=True)
        bi2 = bi.reshape(len(bi), -1) if a.ndim > 1 else bi.reshape(-1, 1)
        k = min(bs, nn)
        if len(bi2) != k: note('sb len')
        tup = [tuple(r) for r in bi2.tolist()]
        if len(set(tup)) != len(tup): note('sb dup')
        vals = [a[t] for t in tup]
        if any(np.isnan(v) for v in vals): note('sb selected nan')
        if any(vals[q] < vals[q+1] for q in range(len(vals)-1)): note('sb not nonincreasing')
        if bu.shape != (k,) + a.shape: note('sb ushape')
        else:
            for r in range(k):
                exp = a.copy()
                for t in tup[:r]: exp[t] = np.nan
                if not np.array_equal(exp, bu[r], equal_nan=True): note('sb utilities row wrong'); break
        note('OK')
    except Exception as ex:
        note('EXC nd=%d %s' % (nd, re.sub(r'\d+', '#', repr(ex))[:80]))
# proportional
for it in range(300):
    n = rng.randint(1, 9); a = rng.choice([0., 0., 1., 2., 0.5], size=n); a[rng.rand(n) < 0.3] = np.nan
    if np.isnan(a).all(): continue
    bs = int(rng.randint(1, n + 2))
    try:
        bi, bu = simple_batch(a.copy(), random_state=it, batch_size=bs, return_utilities=True, method='proportional')
        if len(set(bi.tolist())) != len(bi): note('prop dup')
        if np.isnan(a[bi]).any(): note('prop selected nan')
        if (a[bi] == 0).any(): note('prop selected zero-weight')
        k = min(bs, int((~np.isnan(a)).sum()))
        if len(bi) != k: note('prop len')
        note('OKprop')
    except Exception as ex:
        note('prop EXC npos=%d bs=%d %s' % (int((a > 0).sum()), bs, re.sub(r'\d+', '#', repr(ex))[:60]))
print('C18'); 
for k, v in h.most_common(): print('   ', v, k)
