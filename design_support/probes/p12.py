import numpy as np, warnings, sys, collections, re
warnings.simplefilter("ignore")
sys.path.insert(0,'/tmp/probe')
from fp import fp, diff
from sklearn.base import clone
from sklearn.naive_bayes import GaussianNB
from sklearn.linear_model import LogisticRegression, LinearRegression, BayesianRidge
from sklearn.tree import DecisionTreeClassifier, DecisionTreeRegressor
from sklearn.gaussian_process import GaussianProcessRegressor
from skactiveml.classifier import ParzenWindowClassifier, SklearnClassifier, MixtureModelClassifier, SlidingWindowClassifier
from skactiveml.classifier.multiannotator import AnnotatorEnsembleClassifier, AnnotatorLogisticRegression
from skactiveml.regressor import NICKernelRegressor, NadarayaWatsonRegressor, SklearnRegressor, SklearnNormalRegressor
CL = [0,1,2]
M = {
 'PWC_fixed': (lambda: ParzenWindowClassifier(classes=CL, metric_dict={'gamma': 0.7}), 'clf'),
 'PWC_mean': (lambda: ParzenWindowClassifier(classes=CL, metric_dict={'gamma': 'mean'}), 'clf'),
 'SK_NB': (lambda: SklearnClassifier(GaussianNB(), classes=CL), 'clf'),
 'SK_DT': (lambda: SklearnClassifier(DecisionTreeClassifier(random_state=0), classes=CL), 'clf'),
 'SK_LR': (lambda: SklearnClassifier(LogisticRegression(), classes=CL), 'clf'),
 'ALR': (lambda: AnnotatorLogisticRegression(classes=CL), 'mclf'),
 'NIC': (lambda: NICKernelRegressor(), 'reg'),
 'NW': (lambda: NadarayaWatsonRegressor(), 'reg'),
 'SKR_LR': (lambda: SklearnRegressor(LinearRegression()), 'reg'),
 'SKR_DT': (lambda: SklearnRegressor(DecisionTreeRegressor(random_state=0)), 'reg'),
 'SKNR_GP': (lambda: SklearnNormalRegressor(GaussianProcessRegressor(random_state=0)), 'reg'),
 'SKNR_BR': (lambda: SklearnNormalRegressor(BayesianRidge()), 'reg'),
}
def pred(m, kind, Xq):
    if kind == 'reg':
        out = [m.predict(Xq)]
        if hasattr(m, 'predict_target_distribution'): out.append(m.predict(Xq, return_std=True)[1])
        return np.concatenate([np.asarray(o).ravel() for o in out])
    return m.predict_proba(Xq).ravel()
def run(name, seed):
    mk, kind = M[name]
    rng = np.random.RandomState(seed)
    n = rng.randint(4, 12); d = rng.randint(1, 3)
    X = rng.randn(n, d); Xq = rng.randn(5, d)
    if kind == 'reg': y = rng.randn(n).round(2)
    elif kind == 'clf': y = rng.randint(0, 3, n).astype(float)
    else: y = rng.randint(0, 3, (n, 3)).astype(float)
    miss = rng.rand(*y.shape) < 0.4
    if kind == 'mclf':
        pass
    y2 = y.copy(); y2[miss] = np.nan
    if kind == 'mclf': keep = ~np.isnan(y2).all(1)
    else: keep = ~np.isnan(y2)
    if keep.sum() < 2: return ['skip']
    sw = rng.rand(*y.shape) + 0.1 if rng.rand() < 0.5 else None
    probs = []
    try:
        a = mk(); b = mk()
        if sw is None: a.fit(X, y2); b.fit(X[keep], y2[keep])
        else:
            sw2 = sw.copy(); sw2[np.isnan(y2)] = rng.rand(int(np.isnan(y2).sum())) * 100
            a.fit(X, y2, sw2); b.fit(X[keep], y2[keep], sw[keep])
        pa, pb = pred(a, kind, Xq), pred(b, kind, Xq)
        if not np.allclose(pa, pb, rtol=1e-6, atol=1e-8, equal_nan=True): probs.append('C12 unlabeled-influence maxdiff=%.2g' % np.nanmax(np.abs(pa-pb)))
    except Exception as ex:
        probs.append('C12-EXC sw=%s %s' % (sw is not None, re.sub(r'\d+','#',repr(ex))[:70]))
    # C13: refit vs fresh + get_params stability
    try:
        X1 = rng.randn(n, d) * 3; 
        y1 = rng.randn(n).round(2) if kind == 'reg' else (rng.randint(0,3,n).astype(float) if kind=='clf' else rng.randint(0,3,(n,3)).astype(float))
        m = mk(); p0 = fp(m.get_params(deep=True))
        m.fit(X1, y1); pred(m, kind, Xq); p1 = fp(m.get_params(deep=True))
        m.fit(X[keep], y2[keep]); p2 = fp(m.get_params(deep=True))
        f = clone(mk()).fit(X[keep], y2[keep])
        if p0 != p1 or p0 != p2: probs.append('C13 get_params-changed %s' % [q[0] for q in diff(p0, p2) or diff(p0, p1)][:2])
        pm, pf = pred(m, kind, Xq), pred(f, kind, Xq)
        if not np.allclose(pm, pf, rtol=1e-6, atol=1e-8, equal_nan=True): probs.append('C13 refit!=fresh maxdiff=%.2g' % np.nanmax(np.abs(pm-pf)))
    except Exception as ex:
        probs.append('C13-EXC %s' % re.sub(r'\d+','#',repr(ex))[:70])
    return probs
for name in (sys.argv[1].split(',') if sys.argv[1] != 'all' else M):
    h = collections.Counter()
    for s in range(int(sys.argv[2])):
        for p in run(name, s) or ['OK']: h[re.sub(r'maxdiff=.*', '', p)] += 1
    print(name, dict(h))
