import numpy as np, warnings, sys, collections, re, inspect
warnings.simplefilter("ignore")
sys.path.insert(0,'/tmp/probe')
from fp import fp, diff
from sklearn.base import BaseEstimator
writes = collections.Counter(); MY = __file__
orig_set = BaseEstimator.__setattr__
def __setattr__(self, name, value):
    try: params = type(self)._get_param_names()
    except Exception: params = []
    if name in params:
        f = sys._getframe(1)
        if f.f_code.co_name not in ('__init__', 'set_params', '_set_params') and '/repo/skactiveml/' in f.f_code.co_filename:
            writes[(type(self).__name__, name, f.f_code.co_filename.split('/')[-1], f.f_lineno)] += 1
    orig_set(self, name, value)
BaseEstimator.__setattr__ = __setattr__
import pss
from pss import QS
from skactiveml.classifier import ParzenWindowClassifier
from skactiveml.stream import budgetmanager as B
# C13 + C06 for stream strategies
for name, mk in QS.items():
    probs = collections.Counter()
    for seed in range(5):
        rng = np.random.RandomState(seed); X = rng.randn(60, 2); Xtr = rng.randn(10, 2); ytr = rng.randint(0, 2, 10).astype(float)
        clf = ParzenWindowClassifier(classes=[0,1], random_state=0).fit(Xtr, ytr)
        needs_clf = not name.startswith(('StreamRandom','Periodic'))
        kw = dict(clf=clf) if needs_clf else {}
        if 'rbf' in name: kw.update(X=Xtr, y=ytr)
        res = []
        for g in (1, 2):
            np.random.seed(g); qs = mk(0.3, seed); p0 = fp(qs.get_params(deep=True)); out = []
            try:
                for i in range(0, 60, 5):
                    q, u = qs.query(X[i:i+5], return_utilities=True, **kw); out.append((list(np.asarray(q).tolist()), np.asarray(u).tolist()))
                    if name.startswith('StreamProbabilisticAL'): qs.update(X[i:i+5], q, budget_manager_param_dict={'utilities': u})
                    elif name.startswith('Cog') and 'ffb' not in name:
                        for j in range(5): qs.update(X[i+j:i+j+1], [0] if j in q else [])
                    else: qs.update(X[i:i+5], q)
            except Exception as ex: probs['EXC ' + repr(ex)[:60]] += 1; break
            if fp(qs.get_params(deep=True)) != p0: probs['get_params changed'] += 1
            res.append(out)
        if len(res) == 2 and res[0] != res[1]: probs['global-rng-dependent'] += 1
    print(name, dict(probs) or 'OK')
print('writes:', dict(writes))
