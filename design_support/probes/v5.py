import numpy as np, warnings, sys, collections, re, inspect
warnings.simplefilter("ignore")
sys.path.insert(0,'/tmp/probe')
from fp import fp, diff
from sklearn.naive_bayes import GaussianNB
from sklearn.tree import DecisionTreeClassifier
from skactiveml.classifier import ParzenWindowClassifier, SklearnClassifier, MixtureModelClassifier, SlidingWindowClassifier
from skactiveml.classifier.multiannotator import AnnotatorEnsembleClassifier, AnnotatorLogisticRegression
ENC = {
 'nan_float': (np.nan, [0.,1.,2.], float),
 'neg1_int': (-1, [10,20,30], int),
 'none_obj_str': (None, ['a','b','c'], object),
 'empty_str': ('', ['a','b','c'], '<U2'),
}
CLF = {
 'PWC': lambda c, ml: ParzenWindowClassifier(classes=c, missing_label=ml, random_state=0),
 'PWC_cost': lambda c, ml: ParzenWindowClassifier(classes=c, missing_label=ml, random_state=0, cost_matrix=[[0,1,2],[3,0,1],[1,2,0]]),
 'MMC': lambda c, ml: MixtureModelClassifier(classes=c, missing_label=ml, random_state=0),
 'SK_NB': lambda c, ml: SklearnClassifier(GaussianNB(), classes=c, missing_label=ml, random_state=0),
 'SK_DT': lambda c, ml: SklearnClassifier(DecisionTreeClassifier(random_state=0), classes=c, missing_label=ml, random_state=0),
 'SWC': lambda c, ml: SlidingWindowClassifier(ParzenWindowClassifier(classes=c, missing_label=ml), classes=c, missing_label=ml, window_size=6, random_state=0),
 'ALR': lambda c, ml: AnnotatorLogisticRegression(classes=c, missing_label=ml, random_state=0),
 'AEC_soft': lambda c, ml: AnnotatorEnsembleClassifier([('e%d'%i, ParzenWindowClassifier(missing_label=ml)) for i in range(3)], classes=c, missing_label=ml, voting='soft', random_state=0),
}
def run(name, seed):
    rng = np.random.RandomState(seed); n = rng.randint(4, 10); X = rng.randn(n, 2); Xq = rng.randn(5, 2)
    multi = name in ('ALR', 'AEC_soft'); shape = (n, 3) if multi else (n,)
    yt = rng.randint(0, 3, shape); miss = rng.rand(*shape) < 0.3
    outs = {}; probs = []
    for en, (ml, classes, t) in ENC.items():
        y = np.full(shape, ml, dtype=t)
        for i in np.ndindex(*shape):
            if not miss[i]: y[i] = classes[yt[i]]
        try:
            clf = CLF[name](classes, ml).fit(X, y)
            P = clf.predict_proba(Xq); yp = clf.predict(Xq)
            outs[en] = (P, [classes.index(v) if v in classes else -9 for v in yp.tolist()])
        except Exception as ex: probs.append('EXC[%s] %s' % (en, re.sub(r'\d+','#',repr(ex))[:70]))
    if 'nan_float' in outs:
        for en, (P, yi) in outs.items():
            if not np.allclose(P, outs['nan_float'][0]): probs.append('proba DIFF[%s]' % en)
            if yi != outs['nan_float'][1]: probs.append('predict DIFF[%s]' % en)
    return probs
for name in CLF:
    h = collections.Counter()
    for s in range(25):
        for p in run(name, s) or ['OK']: h[p] += 1
    print(name, dict(h))
