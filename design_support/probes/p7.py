import numpy as np, warnings, sys, collections, re, signal
warnings.simplefilter("ignore")
sys.path.insert(0,'/tmp/probe')
from skactiveml.pool.multiannotator import SingleAnnotatorWrapper, IntervalEstimationThreshold
from skactiveml.pool import RandomSampling, UncertaintySampling
from skactiveml.classifier import ParzenWindowClassifier
from skactiveml.classifier.multiannotator import AnnotatorEnsembleClassifier
class TO(Exception): pass
def alarm(*a): raise TO()
signal.signal(signal.SIGALRM, alarm)
def run(which, seed):
    rng = np.random.RandomState(seed)
    n = rng.randint(3, 9); m = rng.randint(2, 5); d = 2
    X = rng.randn(n, d)
    y = rng.randint(0, 2, size=(n, m)).astype(float)
    y[rng.rand(n, m) < rng.choice([0.3, 0.7, 1.0])] = np.nan
    if not np.isnan(y).any(): y[0, 0] = np.nan
    cm = rng.choice(['none', 'idx', 'feat']); am = rng.choice(['none', 'idx', 'bool'])
    if cm == 'none': cands = None; nc = n
    elif cm == 'idx': cands = np.sort(rng.choice(n, size=rng.randint(1, n+1), replace=False)); nc = len(cands)
    else: cands = rng.randn(rng.randint(1, 5), d); nc = len(cands)
    if am == 'none': annot = None
    elif am == 'idx': annot = np.sort(rng.choice(m, size=rng.randint(1, m+1), replace=False))
    else: annot = rng.rand(nc, m) < 0.5
    # availability oracle
    if cm == 'none' and am == 'none':
        A = np.isnan(y); rows = np.arange(n)
    else:
        rows = np.arange(n) if cm == 'none' else (cands if cm == 'idx' else np.arange(nc))
        if am == 'none': A_ = np.ones((nc, m), bool)
        elif am == 'idx': A_ = np.zeros((nc, m), bool); A_[:, annot] = True
        else: A_ = annot
        if cm == 'feat': A = A_
        else: A = np.zeros((n, m), bool); A[rows] = A_
    navail = int(A.sum())
    bs = int(rng.choice([1, 2, 3, max(1, navail), navail + 2]))
    desc = dict(seed=seed, n=n, m=m, cm=cm, am=am, bs=bs, navail=navail)
    if navail == 0: return ['skip-noavail']
    signal.alarm(5)
    try:
        if which == 'SAW_RS':
            qs = SingleAnnotatorWrapper(RandomSampling(random_state=seed), random_state=seed)
            out = qs.query(X, y, candidates=cands, annotators=annot, batch_size=bs, n_annotators_per_sample=int(rng.randint(1, 3)), return_utilities=True)
        elif which == 'SAW_US':
            qs = SingleAnnotatorWrapper(UncertaintySampling(random_state=seed), random_state=seed)
            out = qs.query(X, y, candidates=cands, annotators=annot, batch_size=bs, n_annotators_per_sample=int(rng.randint(1, 3)), return_utilities=True, clf=ParzenWindowClassifier(classes=[0,1], random_state=0))
        else:
            qs = IntervalEstimationThreshold(random_state=seed)
            clf = AnnotatorEnsembleClassifier([('p%d' % i, ParzenWindowClassifier(classes=[0,1])) for i in range(m)], classes=[0,1], voting='soft')
            out = qs.query(X, y, clf=clf, candidates=cands, annotators=annot, batch_size=bs, return_utilities=True)
        signal.alarm(0)
    except TO:
        return ['TIMEOUT(hang) cm=%s am=%s' % (cm, am)]
    except Exception as ex:
        signal.alarm(0)
        return ['EXC cm=%s am=%s %s' % (cm, am, re.sub(r'\d+', '#', repr(ex))[:70])]
    idx, U = out; idx = np.asarray(idx); U = np.asarray(U)
    k = min(bs, navail); probs = []
    if idx.ndim != 2 or idx.shape[1] != 2: return ['bad-shape %s' % (idx.shape,)]
    if len(idx) != k: probs.append('len %d != %d (cm=%s am=%s)' % (len(idx), k, cm, am))
    pairs = [tuple(p) for p in idx.tolist()]
    if len(set(pairs)) != len(pairs): probs.append('dup-pairs cm=%s am=%s' % (cm, am))
    for p in pairs:
        if not (0 <= p[0] < A.shape[0] and 0 <= p[1] < m and A[p]): probs.append('unavailable-pair cm=%s am=%s' % (cm, am)); break
    if U.shape != (len(idx), A.shape[0], m): probs.append('Ushape %s vs %s' % (U.shape, (len(idx), A.shape[0], m)))
    else:
        for i in range(len(idx)):
            if (~np.isnan(U[i]) & ~A).any(): probs.append('util-at-unavailable cm=%s am=%s' % (cm, am)); break
            for p in pairs[:i]:
                if not np.isnan(U[i][p]): probs.append('earlier-not-nan'); break
    return probs
for which in sys.argv[1].split(','):
    h = collections.Counter()
    for s in range(int(sys.argv[2])):
        for p in run(which, s) or ['OK']: h[re.sub(r'len \d+ != \d+', 'len', p)] += 1
    print(which); 
    for k, v in h.most_common(): print('    ', v, k)
