import sys, collections, re, warnings
warnings.simplefilter("ignore")
sys.path.insert(0,'/tmp/probe')
from p2 import check, REG
names = sys.argv[1].split(',') if sys.argv[1] != 'all' else list(REG)
N = int(sys.argv[2])
for name in names:
    h = collections.Counter(); ex = {}
    for s in range(N):
        r = check(name, s)
        if r[0] == 'OK': h['OK'] += 1; continue
        if r[0] == 'EXC': key = 'EXC:' + re.sub(r'\d+', '#', r[2])[:80]
        else: key = 'BAD:' + '|'.join(sorted(set(re.sub(r'[\d\.\-e]+', '#', p.split(' ')[0]) for p in r[2])))
        h[key] += 1; ex.setdefault(key, r[1])
    print(name)
    for k, v in h.most_common(): print('   ', v, k, ex.get(k, ''))
