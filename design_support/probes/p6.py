import numpy as np, warnings, sys, collections
warnings.simplefilter("ignore")
sys.path.insert(0,'/tmp/probe')
from reg import REG, C
import reg as R
from skactiveml import pool as P
from p2 import mkdata
# default (no cluster_algo_dict) variants
R.add('TypiClust_default', lambda s: P.TypiClust(random_state=s), lambda c: {}, feat=False)
R.add('ProbCover_default', lambda s: P.ProbCover(random_state=s), lambda c: {}, feat=False)
R.add('Clue_default', lambda s: P.Clue(random_state=s), lambda c: dict(clf=R.clf_pwc(c)), feat=False)
R.add('DropQuery_default', lambda s: P.DropQuery(random_state=s), lambda c: dict(clf=R.clf_pwc(c)), feat=False)
def eq(a, b):
    ia, ua = a; ib, ub = b
    return np.array_equal(np.asarray(ia), np.asarray(ib)) and np.array_equal(np.asarray(ua), np.asarray(ub), equal_nan=True)
def run(name, seed):
    mk, kw, kind, feat = REG[name]
    rng = np.random.RandomState(seed)
    n = rng.randint(8, 16); d = rng.randint(1, 3)
    mode = ['normal','dups','grid'][rng.randint(3)]
    X = mkdata(rng, n, d, mode)
    ytrue = rng.randn(n).round(1) if kind == 'reg' else rng.randint(0, 3, size=n).astype(float)
    nl = rng.choice([0, 2, n//2]); lab = rng.choice(n, size=nl, replace=False)
    y = np.full(n, np.nan); y[lab] = ytrue[lab]
    bs = int(rng.choice([1,2,3]))
    def call(qs, gseed):
        np.random.seed(gseed)
        g0 = np.random.get_state()[1].copy(), np.random.get_state()[2]
        out = qs.query(X=X, y=y, batch_size=bs, return_utilities=True, **kw(C))
        g1 = np.random.get_state()
        touched = not (np.array_equal(g0[0], g1[1]) and g0[1] == g1[2])
        return out, touched
    probs = []
    try:
        q1 = mk(seed); a, t1 = call(q1, 1)
        b, _ = call(q1, 1)          # repeat same object
        q2 = mk(seed); c, _ = call(q2, 1)   # twin
        q3 = mk(seed); e, _ = call(q3, 999)  # different global state
    except Exception as ex:
        return ['EXC ' + repr(ex)[:80]]
    if not eq(a, b): probs.append('repeat-differs')
    if not eq(a, c): probs.append('twin-differs')
    if not eq(a, e): probs.append('global-rng-dependent')
    if t1: probs.append('(touches-global-rng)')
    return probs
names = sys.argv[1].split(',') if sys.argv[1] != 'all' else list(REG)
for name in names:
    h = collections.Counter()
    for s in range(int(sys.argv[2])):
        for p in run(name, s) or ['OK']: h[p] += 1
    print(name, dict(h))
