import numpy as np, warnings, sys, collections, re, signal
warnings.simplefilter("ignore")
from skactiveml.pool.multiannotator import SingleAnnotatorWrapper
from skactiveml.pool import RandomSampling, UncertaintySampling, CoreSet
from skactiveml.classifier import ParzenWindowClassifier
class TO(Exception): pass
def alarm(*a): raise TO()
signal.signal(signal.SIGALRM, alarm)
h = collections.Counter()
for seed in range(300):
    rng = np.random.RandomState(seed)
    n = rng.randint(3, 9); m = rng.randint(2, 5)
    X = rng.randn(n, 2); y = rng.randint(0, 2, (n, m)).astype(float); y[rng.rand(n, m) < 0.6] = np.nan
    if not np.isnan(y).any(): y[0,0] = np.nan
    inner = [RandomSampling(random_state=seed), UncertaintySampling(random_state=seed), CoreSet(random_state=seed)][seed % 3]
    kw = dict(clf=ParzenWindowClassifier(classes=[0,1], random_state=0)) if seed % 3 == 1 else {}
    rec = []
    oq = inner.query
    def proxy(*a, **k):
        out = oq(*a, **k); rec.append((k, out)); return out
    inner.query = proxy
    navail = int(np.isnan(y).sum()); bs = int(rng.choice([1, 2, 3, navail])); aps = int(rng.randint(1, 4))
    A_perf = None if rng.rand() < 0.5 else rng.rand(m)
    signal.alarm(5)
    try:
        idx = SingleAnnotatorWrapper(inner, random_state=seed).query(X, y, batch_size=bs, n_annotators_per_sample=aps, A_perf=A_perf, **kw)
        signal.alarm(0)
    except TO: h['hang'] += 1; continue
    except Exception as ex: signal.alarm(0); h['EXC ' + repr(ex)[:60]] += 1; continue
    inner_idx = np.asarray(rec[0][1][0]).tolist()
    samples = idx[:, 0].tolist()
    order = list(dict.fromkeys(samples))
    contiguous = all(samples[i] == samples[i-1] or samples[i] not in samples[:i] for i in range(1, len(samples)))
    if order != inner_idx[:len(order)]: h['order-mismatch'] += 1
    elif not contiguous: h['not-contiguous'] += 1
    else:
        # annotators per sample respected when available
        avail = np.isnan(y).sum(1); cnt = collections.Counter(samples); ok = True
        for s in order[:-1]:
            if cnt[s] < min(aps, avail[s]): ok = False
        h['OK' if ok else 'fewer-annotators-than-requested'] += 1
    if A_perf is not None and h:
        # best annotators chosen first for each sample
        for s in order:
            chosen = [a for (ss, a) in idx.tolist() if ss == s]
            av = np.where(np.isnan(y[s]))[0]
            best = sorted(av, key=lambda a: -A_perf[a])[:len(chosen)]
            if sorted(chosen) != sorted(best) and len(set(A_perf[av])) == len(av): h['annotator-not-best'] += 1; break
for k, v in h.most_common(): print(v, k)
