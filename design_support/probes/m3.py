import sys, warnings, numpy as np, inspect, collections
warnings.simplefilter("ignore")
from sklearn.base import BaseEstimator
import skactiveml, skactiveml.pool, skactiveml.stream, skactiveml.classifier, skactiveml.regressor, skactiveml.pool.multiannotator, skactiveml.classifier.multiannotator
writes = collections.Counter()
MY = __file__
def install(cls):
    orig_set = cls.__setattr__
    def __setattr__(self, name, value, _orig=orig_set):
        try: params = type(self)._get_param_names()
        except Exception: params = []
        if name in params:
            f = sys._getframe(1)
            while f is not None and f.f_code.co_filename == MY: f = f.f_back
            fn = f.f_code.co_name
            if fn not in ('__init__', 'set_params', '_set_params') and '/repo/skactiveml/' in f.f_code.co_filename and '/tests/' not in f.f_code.co_filename:
                writes[(type(self).__name__, name, f.f_code.co_filename.split('/')[-1], f.f_lineno, fn)] += 1
        _orig(self, name, value)
    cls.__setattr__ = __setattr__
install(BaseEstimator)
import pytest
sys.exit_code = pytest.main(['-x', '-q', '-p', 'no:cacheprovider', '/repo/skactiveml/pool', '/repo/skactiveml/stream', '/repo/skactiveml/classifier', '/repo/skactiveml/regressor', '-k', 'not test_examples', '--timeout=900', '-W', 'ignore'])
for k, v in sorted(writes.items()): print(v, k)
