import numpy as np, warnings, sys, collections, re, copy
warnings.simplefilter("ignore")
sys.path.insert(0,'/tmp/probe')
from fp import fp, diff
from skactiveml import stream as S
from skactiveml.stream import budgetmanager as B
from skactiveml.classifier import ParzenWindowClassifier
BMS = {
 'Fixed': lambda b, s, w: B.FixedUncertaintyBudgetManager(classes=[0,1], budget=b, w=w),
 'Var': lambda b, s, w: B.VariableUncertaintyBudgetManager(budget=b, w=w),
 'RandVar': lambda b, s, w: B.RandomVariableUncertaintyBudgetManager(budget=b, w=w, random_state=s),
 'Split': lambda b, s, w: B.SplitBudgetManager(budget=b, w=w, random_state=s),
 'Random': lambda b, s, w: B.RandomBudgetManager(budget=b, w=w, random_state=s),
 'DBSplit': lambda b, s, w: B.DensityBasedSplitBudgetManager(budget=b, random_state=s),
 'BIQF': lambda b, s, w: B.BalancedIncrementalQuantileFilter(budget=b, w=w),
}
def state(o):
    return fp({k: v for k, v in o.__dict__.items() if k.endswith('_')})
def upd(bm, name, cands, q, u):
    if name == 'BIQF': bm.update(cands, q, utilities=u)
    else: bm.update(cands, q)
def utilstream(rng, n, kind):
    if kind == 'uniform': return rng.rand(n)
    if kind == 'ones': return np.ones(n)
    if kind == 'zeros': return np.zeros(n)
    if kind == 'nan': u = rng.rand(n); u[rng.rand(n) < 0.3] = np.nan; return u
    if kind == 'const': return np.full(n, 0.5)
    if kind == 'big': return rng.rand(n) * 10
def chunks(rng, n, kind):
    out = []; i = 0
    while i < n:
        c = 1 if kind == 'one' else (rng.randint(1, 8) if kind == 'rand' else n)
        out.append((i, min(n, i + c))); i += c
    return out
def run_bm(name, seed):
    rng = np.random.RandomState(seed)
    b = float(rng.choice([0.05, 0.1, 0.3, 0.5, 0.9, 1.0])); w = int(rng.choice([1, 5, 20, 100]))
    n = 300; kind = ['uniform','ones','zeros','nan','const','big'][rng.randint(6)]
    u = utilstream(rng, n, kind)
    probs = []
    results = {}
    for ck in ['one', 'rand', 'rand2']:
        bm = BMS[name](b, seed, w); granted = []; crng = np.random.RandomState(seed + (7 if ck=='rand2' else 0))
        for (lo, hi) in chunks(crng, n, 'rand' if ck.startswith('rand') else ck):
            uu = u[lo:hi]; cands = np.zeros((hi-lo, 1))
            q1 = list(bm.query_by_utility(uu)); s1 = state(bm)
            q2 = list(bm.query_by_utility(uu)); s2 = state(bm)
            if q1 != q2: probs.append('query-not-idempotent')
            if s1 != s2: probs.append('query-changes-state:%s' % [d[0] for d in diff(s1, s2)][:2])
            if any(not (0 <= i < hi-lo) for i in q1) or sorted(set(q1)) != q1: probs.append('bad-indices')
            try: upd(bm, name, cands, q1, uu)
            except Exception as ex: probs.append('update-EXC ' + repr(ex)[:60]); break
            granted += [lo + i for i in q1]
            # budget bound at prefix hi
        results[ck] = (granted, state(bm))
        g = np.zeros(n); g[granted] = 1; cs = np.cumsum(g); ns = np.arange(1, n+1)
        if name in ('Fixed','Var','RandVar','Split','Random'): bound = b*ns + ns/w + b*w + 1
        elif name == 'DBSplit': bound = b*ns + 1
        else: bound = None
        if bound is not None and (cs > bound + 1e-9).any():
            k = int(np.argmax(cs > bound + 1e-9)); probs.append('budget-exceeded %s at n=%d: %d > %.2f (b=%s,w=%s,%s)' % (ck, k+1, cs[k], bound[k], b, w, kind))
    if name in ('Fixed','Var','Split','Random','BIQF'):
        if results['one'][0] != results['rand'][0] or results['one'][0] != results['rand2'][0]: probs.append('chunk-dependent-decisions (b=%s,w=%s,%s)' % (b, w, kind))
        elif results['one'][1] != results['rand'][1]: probs.append('chunk-dependent-state:%s' % [d[0] for d in diff(results['one'][1], results['rand'][1])][:2])
    return sorted(set(probs))
for name in (sys.argv[1].split(',') if sys.argv[1] != 'all' else BMS):
    h = collections.Counter(); ex = {}
    for s in range(int(sys.argv[2])):
        for p in run_bm(name, s) or ['OK']:
            k = re.sub(r'\(.*\)|at n=.*', '', p); h[k] += 1; ex.setdefault(k, p)
    print(name, dict(h)); 
    for k, v in ex.items():
        if k != 'OK': print('     ', v)
