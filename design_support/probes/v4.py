import sys, warnings
warnings.simplefilter("ignore")
sys.path.insert(0,'/tmp/probe')
import reg as R
from skactiveml import pool as P
R.add('US_eap', lambda s: P.UncertaintySampling(method='expected_average_precision', random_state=s), lambda c: dict(clf=R.clf_pwc(c)))
R.add('US_lc_cost', lambda s: P.UncertaintySampling(method='least_confident', cost_matrix=[[0,1,2],[1,0,1],[3,1,0]], random_state=s), lambda c: dict(clf=R.clf_pwc(c)))
R.add('ProbAL_rbf', lambda s: P.ProbabilisticAL(metric='rbf', random_state=s), lambda c: dict(clf=R.clf_nb(c)))
R.add('MCEER_log', lambda s: P.MonteCarloEER(method='log_loss', random_state=s), lambda c: dict(clf=R.clf_pwc(c)))
R.add('VoI_sub', lambda s: P.ValueOfInformationEER(subtract_current=True, normalize=True, random_state=s), lambda c: dict(clf=R.clf_pwc(c)))
R.add('GSy', lambda s: P.GreedySamplingTarget(method='GSy', n_GSx_samples=2, random_state=s), lambda c: dict(reg=R.reg_nic()), kind='reg')
R.add('Sub_US', lambda s: P.SubSamplingWrapper(P.UncertaintySampling(random_state=s), max_candidates=3, random_state=s), lambda c: dict(clf=R.clf_pwc(c)))
R.add('Par_US', lambda s: P.ParallelUtilityEstimationWrapper(P.UncertaintySampling(random_state=s), n_jobs=2, random_state=s), lambda c: dict(clf=R.clf_pwc(c)))
import p14, p2, collections, re
for name in ['US_eap','US_lc_cost','ProbAL_rbf','MCEER_log','VoI_sub','GSy','Sub_US']:
    h = collections.Counter()
    for s in range(30):
        for p in p14.run(name, s) or ['OK']: h[re.sub(r'cycle\d+/\d+', 'cycleX', p)] += 1
    print('C14', name, dict(h))
    h = collections.Counter()
    for s in range(30):
        r = p2.check(name, s); h[r[0] if r[0]=='OK' else str(r[2])[:100]] += 1
    print('C01', name, dict(h))
