import numpy as np, warnings
from sklearn.naive_bayes import GaussianNB
from sklearn.linear_model import LogisticRegression
from sklearn.ensemble import RandomForestClassifier, BaggingClassifier
from sklearn.tree import DecisionTreeRegressor, DecisionTreeClassifier
from sklearn.gaussian_process import GaussianProcessRegressor
from skactiveml.classifier import ParzenWindowClassifier, SklearnClassifier, MixtureModelClassifier
from skactiveml.regressor import NICKernelRegressor, SklearnRegressor, SklearnNormalRegressor
from skactiveml import pool as P

def clf_pwc(classes, ml=np.nan): return ParzenWindowClassifier(classes=classes, missing_label=ml, random_state=0)
def clf_nb(classes, ml=np.nan): return SklearnClassifier(GaussianNB(), classes=classes, missing_label=ml, random_state=0)
def ens(classes, ml=np.nan): return SklearnClassifier(BaggingClassifier(DecisionTreeClassifier(random_state=0), n_estimators=3, random_state=0), classes=classes, missing_label=ml, random_state=0)
def reg_nic(): return NICKernelRegressor(random_state=0)
def reg_tree(): return SklearnRegressor(DecisionTreeRegressor(min_samples_leaf=2, random_state=0))

# name -> (factory(seed), kwargs(classes), kind, supports_feature_cands)
REG = {}
def add(name, mk, kw, kind='clf', feat=True):
    REG[name] = (mk, kw, kind, feat)
C=[0,1,2]
add('RandomSampling', lambda s: P.RandomSampling(random_state=s), lambda c: {})
for m in ['least_confident','margin_sampling','entropy']:
    add('US_'+m, lambda s,m=m: P.UncertaintySampling(method=m, random_state=s), lambda c: dict(clf=clf_pwc(c)))
add('ProbabilisticAL', lambda s: P.ProbabilisticAL(random_state=s), lambda c: dict(clf=clf_pwc(c)))
add('QBC_KL', lambda s: P.QueryByCommittee(random_state=s), lambda c: dict(ensemble=ens(c)))
add('QBC_VE', lambda s: P.QueryByCommittee(method='vote_entropy', random_state=s), lambda c: dict(ensemble=ens(c)))
add('BatchBALD', lambda s: P.BatchBALD(random_state=s), lambda c: dict(ensemble=ens(c)))
add('GreedyBALD', lambda s: P.GreedyBALD(random_state=s), lambda c: dict(ensemble=ens(c)))
add('CoreSet', lambda s: P.CoreSet(random_state=s), lambda c: {})
add('TypiClust', lambda s: P.TypiClust(random_state=s, cluster_algo_dict={'random_state':0}), lambda c: {}, feat=False)
add('Badge', lambda s: P.Badge(random_state=s), lambda c: dict(clf=clf_pwc(c)))
add('ProbCover', lambda s: P.ProbCover(random_state=s, cluster_algo_dict={'random_state':0}), lambda c: {}, feat=False)
add('ContrastiveAL', lambda s: P.ContrastiveAL(random_state=s), lambda c: dict(clf=clf_pwc(c)))
add('Clue', lambda s: P.Clue(random_state=s, cluster_algo_dict={'random_state':0}), lambda c: dict(clf=clf_pwc(c)), feat=False)
add('DropQuery', lambda s: P.DropQuery(random_state=s, cluster_algo_dict={'random_state':0}), lambda c: dict(clf=clf_pwc(c)), feat=False)
add('Falcun', lambda s: P.Falcun(random_state=s), lambda c: dict(clf=clf_pwc(c)))
add('FourDs', lambda s: P.FourDs(random_state=s), lambda c: dict(clf=MixtureModelClassifier(classes=c, random_state=0)))
add('DiscriminativeAL', lambda s: P.DiscriminativeAL(random_state=s), lambda c: dict(discriminator=clf_pwc(None)), feat=False)
add('DiscriminativeAL_greedy', lambda s: P.DiscriminativeAL(greedy_selection=True, random_state=s), lambda c: dict(discriminator=clf_pwc(None)), feat=False)
add('Quire', lambda s: P.Quire(classes=C, random_state=s), lambda c: {}, feat=False)
add('CostEmbeddingAL', lambda s: P.CostEmbeddingAL(classes=C, random_state=s), lambda c: {})
add('MonteCarloEER', lambda s: P.MonteCarloEER(random_state=s), lambda c: dict(clf=clf_pwc(c)))
add('VoIEER', lambda s: P.ValueOfInformationEER(random_state=s), lambda c: dict(clf=clf_pwc(c)), feat=False)
add('GreedySamplingX', lambda s: P.GreedySamplingX(random_state=s), lambda c: {}, kind='both')
add('GreedySamplingTarget', lambda s: P.GreedySamplingTarget(random_state=s), lambda c: dict(reg=reg_nic()), kind='reg')
add('EMCM', lambda s: P.ExpectedModelChangeMaximization(random_state=s), lambda c: dict(reg=reg_nic()), kind='reg')
add('EMOC', lambda s: P.ExpectedModelOutputChange(random_state=s), lambda c: dict(reg=reg_nic()), kind='reg')
add('EMVR', lambda s: P.ExpectedModelVarianceReduction(random_state=s), lambda c: dict(reg=reg_nic()), kind='reg')
add('KLDM', lambda s: P.KLDivergenceMaximization(random_state=s), lambda c: dict(reg=reg_nic()), kind='reg')
for m in ['random','diversity','representativity']:
    add('RT_'+m, lambda s,m=m: P.RegressionTreeBasedAL(method=m, random_state=s), lambda c: dict(reg=reg_tree()), kind='reg')
def ens_list(classes, ml=np.nan):
    return [ParzenWindowClassifier(classes=classes, missing_label=ml, metric_dict={'gamma': g}, random_state=0) for g in (0.1, 1.0, 5.0)]
add('QBC_KL_list', lambda s: P.QueryByCommittee(random_state=s), lambda c: dict(ensemble=ens_list(c)))
add('QBC_VE_list', lambda s: P.QueryByCommittee(method='vote_entropy', random_state=s), lambda c: dict(ensemble=ens_list(c)))
add('QBC_VR_list', lambda s: P.QueryByCommittee(method='variation_ratios', random_state=s), lambda c: dict(ensemble=ens_list(c)))
add('GreedyBALD_list', lambda s: P.GreedyBALD(random_state=s), lambda c: dict(ensemble=ens_list(c)))
add('BatchBALD_list', lambda s: P.BatchBALD(random_state=s), lambda c: dict(ensemble=ens_list(c)))
add('EpistemicUS', lambda s: P.EpistemicUncertaintySampling(random_state=s), lambda c: dict(clf=clf_pwc(c[:2])))
