import numpy as np, warnings
warnings.simplefilter("ignore")
from skactiveml.utils import ext_confusion_matrix, majority_vote, compute_vote_vectors
print("C17 ext_confusion_matrix normalize=None:")
print(ext_confusion_matrix([0,1,1,0],[ [0,1],[1,1],[0,1],[0,0] ], normalize=None))
print(ext_confusion_matrix([0,1,1,0],[ [0,1],[1,1],[0,1],[0,0] ], normalize='all'))

from skactiveml.classifier import SklearnClassifier, ParzenWindowClassifier
from sklearn.naive_bayes import GaussianNB
from sklearn.linear_model import LogisticRegression
X = np.array([[0.],[1.],[2.],[3.],[4.],[5.]])
y = np.array([10,10,20,20,30,30])
clf = SklearnClassifier(GaussianNB(), classes=[10,20,30], cost_matrix=1-np.eye(3), random_state=0).fit(X,y)
print("C11 SklearnClassifier cost predict:", clf.predict(X), clf.classes_)
clf = ParzenWindowClassifier(classes=[10,20,30], cost_matrix=1-np.eye(3), random_state=0).fit(X,y)
print("PWC cost predict:", clf.predict(X))

print("C13 PWC gamma=mean")
d = {"gamma": "mean"}
pwc = ParzenWindowClassifier(metric_dict=d, classes=[10,20,30])
pwc.fit(X, y)
print(d, pwc.get_params()["metric_dict"])
from skactiveml.regressor import NICKernelRegressor
r = NICKernelRegressor()
print(r.get_params()["metric_dict"]); r.fit(X, y.astype(float)); print(r.get_params()["metric_dict"])
