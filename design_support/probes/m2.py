import sys, warnings, numpy as np, inspect
warnings.simplefilter("ignore")
sys.path.insert(0, '/tmp/deps')
import icontract
import skactiveml, skactiveml.pool, skactiveml.stream, skactiveml.classifier, skactiveml.regressor
from skactiveml.utils import _selection
class PostBroken(Exception): pass
counter = {'n': 0}
def n_nonnan(utilities): return int(np.sum(~np.isnan(np.asarray(utilities, dtype=float))))
def sb_ok(utilities, batch_size, return_utilities, result, OLD):
    counter['n'] += 1
    idx = result[0] if return_utilities else result
    idx = np.asarray(idx)
    k = min(batch_size, OLD.nn)
    rows = idx.reshape(len(idx), -1)
    return len(idx) == k and len({tuple(r) for r in rows.tolist()}) == len(rows)
orig = _selection.simple_batch
wrapped = icontract.snapshot(n_nonnan, name='nn')(icontract.ensure(sb_ok, error=lambda utilities, batch_size: PostBroken('simple_batch post: bs=%s' % batch_size))(orig))
# rebind everywhere
n = 0
for mname, mod in list(sys.modules.items()):
    if mname.startswith('skactiveml') and mod is not None:
        for k, v in list(vars(mod).items()):
            if v is orig: setattr(mod, k, wrapped); n += 1
print('rebound in', n, 'modules')
from skactiveml.pool import UncertaintySampling
from skactiveml.classifier import ParzenWindowClassifier
X = np.random.randn(10, 2); y = np.full(10, np.nan); y[:3] = [0, 1, 0]
print(UncertaintySampling(random_state=0).query(X, y, clf=ParzenWindowClassifier(classes=[0,1]), batch_size=3), 'evals', counter['n'])
# (c) setattr monitor
from sklearn.base import BaseEstimator
writes = []
def install(cls):
    params = set(inspect.signature(cls.__init__).parameters) - {'self'}
    orig_set = cls.__setattr__
    def __setattr__(self, name, value, _orig=orig_set, _params=params):
        if name in _params:
            f = sys._getframe(1)
            fn = f.f_code.co_name
            if fn not in ('__init__', 'set_params', '_set_params') :
                writes.append((type(self).__name__, name, f.f_code.co_filename.split('/')[-1], f.f_lineno, fn))
        _orig(self, name, value)
    cls.__setattr__ = __setattr__
seen = set()
def subclasses(c):
    for s in c.__subclasses__():
        if s not in seen: seen.add(s); yield s; yield from subclasses(s)
for cls in list(subclasses(BaseEstimator)):
    if cls.__module__.startswith('skactiveml') and '__setattr__' not in vars(cls): install(cls)
from skactiveml.pool import GreedySamplingTarget, ExpectedModelChangeMaximization
from skactiveml.regressor import NICKernelRegressor
yr = np.full(10, np.nan); yr[:3] = [0.1, 1.2, 0.4]
GreedySamplingTarget(random_state=0).query(X, yr, reg=NICKernelRegressor())
print(writes)
