import ast, sys
for path in sys.argv[1:]:
    src = open(path).read()
    lines = src.split('\n')
    skip = set()
    tree = ast.parse(src)
    for node in ast.walk(tree):
        if isinstance(node, (ast.FunctionDef, ast.ClassDef, ast.AsyncFunctionDef, ast.Module)):
            if node.body and isinstance(node.body[0], ast.Expr) and isinstance(getattr(node.body[0], 'value', None), ast.Constant) and isinstance(node.body[0].value.value, str):
                d = node.body[0]
                for l in range(d.lineno, d.end_lineno + 1):
                    skip.add(l)
    print(f"##### {path}")
    for i, l in enumerate(lines, 1):
        if i in skip or not l.strip():
            continue
        print(f"{i:5d} {l}")
