import numpy as np, warnings, sys, collections, inspect
warnings.simplefilter("ignore")
sys.path.insert(0,'/tmp/probe')
import reg as R
from reg import REG
from skactiveml import pool as P
ENC = {
 'nan_float': (np.nan, [0.,1.,2.], float),
 'neg1_int': (-1, [10,20,30], int),
 'none_obj_num': (None, [1,2,3], object),
 'none_obj_str': (None, ['a','b','c'], object),
 'empty_str': ('', ['a','b','c'], str),
 'str_sentinel': ('zz', ['a','b','c'], '<U2'),
}
def build(name, seed, ml, classes):
    mk, kw, kind, feat = REG[name]
    qs = mk(seed); qs.missing_label = ml
    if hasattr(qs, 'classes'): qs.classes = classes
    kwargs = kw(classes)
    for k, m in kwargs.items():
        for mm in (m if isinstance(m, list) else [m]):
            if hasattr(mm, 'missing_label'): mm.missing_label = ml
        if k == 'discriminator': m.classes = None
    return qs, kwargs
def run(name, seed):
    mk, kw, kind, feat = REG[name]
    if kind == 'reg': return ['skip-reg']
    rng = np.random.RandomState(seed)
    n = rng.randint(6, 12); d = rng.randint(1, 3)
    X = rng.randn(n, d)
    yt = rng.randint(0, 3, size=n)
    nl = rng.choice([0, 2, n//2]); lab = rng.choice(n, size=nl, replace=False)
    cmode = rng.choice(['none', 'feat'] if feat else ['none'])
    cands = None if cmode == 'none' else rng.randn(3, d)
    outs = {}; probs = []
    for en, (ml, classes, t) in ENC.items():
        y = np.full(n, ml, dtype=t)
        for i in lab: y[i] = classes[yt[i]]
        qs, kwargs = build(name, seed, ml, classes)
        try:
            outs[en] = qs.query(X=X, y=y, candidates=cands, batch_size=2, return_utilities=True, **kwargs)
        except Exception as ex:
            probs.append('EXC[%s] %s' % (en, repr(ex)[:70]))
    if 'nan_float' in outs:
        i0, u0 = outs['nan_float']
        for en, (i, u) in outs.items():
            if not (np.array_equal(np.asarray(i0).ravel(), np.asarray(i).ravel()) and np.allclose(np.asarray(u0), np.asarray(u), equal_nan=True, rtol=1e-7, atol=1e-9)):
                probs.append('DIFF[%s]' % en)
    return probs
names = sys.argv[1].split(',') if sys.argv[1] != 'all' else list(REG)
for name in names:
    h = collections.Counter()
    for s in range(int(sys.argv[2])):
        for p in run(name, s) or ['OK']: h[p] += 1
    print(name, dict(h))
