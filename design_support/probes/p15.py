import numpy as np, warnings, sys, collections, re
warnings.simplefilter("ignore")
from sklearn.linear_model import LinearRegression, BayesianRidge, ARDRegression
from sklearn.gaussian_process import GaussianProcessRegressor
from sklearn.tree import DecisionTreeRegressor
from skactiveml.regressor import NICKernelRegressor, NadarayaWatsonRegressor, SklearnRegressor, SklearnNormalRegressor
M = {
 'NIC': lambda r: NICKernelRegressor(kappa_0=float(r.choice([0.1, 1, 5])), nu_0=float(r.choice([0.5, 2.5, 10])), mu_0=float(r.randn()), sigma_sq_0=float(r.choice([0.1, 1, 4])), metric_dict={'gamma': float(r.choice([0.1, 1, 10]))}),
 'NIC_improper': lambda r: NICKernelRegressor(kappa_0=0, nu_0=0),
 'NW': lambda r: NadarayaWatsonRegressor(),
 'SKNR_GP': lambda r: SklearnNormalRegressor(GaussianProcessRegressor(random_state=0)),
 'SKNR_BR': lambda r: SklearnNormalRegressor(BayesianRidge()),
 'SKR_LR': lambda r: SklearnRegressor(LinearRegression()),
 'SKR_DT': lambda r: SklearnRegressor(DecisionTreeRegressor(random_state=0)),
}
def run(name, seed):
    rng = np.random.RandomState(seed)
    n = rng.randint(1, 9); d = rng.randint(1, 3); nl = int(rng.choice([0, 1, 2, n]))
    X = rng.randn(n, d); y = np.full(n, np.nan); lab = rng.choice(n, size=min(nl, n), replace=False); y[lab] = rng.randn(len(lab))
    Xq = rng.randn(4, d); m = M[name](rng); probs = []; tag = 'nl=%d' % len(lab)
    try:
        m.fit(X, y); mu = m.predict(Xq)
    except Exception as ex: return ['fit/predict-EXC %s %s' % (tag, re.sub(r'\d+','#',repr(ex))[:60])]
    if np.asarray(mu).shape != (4,): probs.append('mu shape')
    if not hasattr(m, 'predict_target_distribution'):
        if len(lab) == 0 and not np.allclose(mu, 0): probs.append('fallback mean != 0')
        return probs
    try:
        rv = m.predict_target_distribution(Xq)
        mu2, sd, ent = m.predict(Xq, return_std=True, return_entropy=True)
        if not np.array_equal(mu, rv.mean(), equal_nan=True) or not np.array_equal(mu2, mu, equal_nan=True): probs.append('mean mismatch ' + tag)
        if not np.array_equal(sd, rv.std(), equal_nan=True): probs.append('std mismatch')
        if not np.array_equal(ent, rv.entropy(), equal_nan=True): probs.append('entropy mismatch')
        proper = name not in ('NIC_improper', 'NW')
        if (proper or len(lab) >= 2):
            if not np.isfinite(sd).all() or (sd < 0).any(): probs.append('std not finite/nonneg %s' % tag)
            if not np.isfinite(mu).all(): probs.append('mean not finite %s' % tag)
        s1 = m.sample_y(Xq, n_samples=3, random_state=5); s2 = m.sample_y(Xq, n_samples=3, random_state=5)
        if np.asarray(s1).shape != (4, 3): probs.append('sample shape %s' % (np.asarray(s1).shape,))
        if not np.array_equal(s1, s2, equal_nan=True): probs.append('sample not reproducible')
    except Exception as ex: probs.append('dist-EXC %s %s' % (tag, re.sub(r'\d+','#',repr(ex))[:60]))
    return probs
for name in M:
    h = collections.Counter()
    for s in range(int(sys.argv[1])):
        for p in run(name, s) or ['OK']: h[p] += 1
    print(name, dict(h))
