import numpy as np, warnings, sys, collections
warnings.simplefilter("ignore")
sys.path.insert(0,'/tmp/probe')
from reg import REG, C
from p2 import mkdata
def run(name, seed):
    mk, kw, kind, feat = REG[name]
    rng = np.random.RandomState(seed)
    n = rng.randint(6, 13); d = rng.randint(1, 3)
    X = rng.randn(n, d)
    ytrue = rng.randn(n).round(1) if kind == 'reg' else rng.randint(0, 3, size=n).astype(float)
    nl = rng.choice([2, 3, n//2]); lab = rng.choice(n, size=nl, replace=False)
    y = np.full(n, np.nan); y[lab] = ytrue[lab]
    unl = np.where(np.isnan(y))[0]
    probs = []
    def q(cands, XX=X, yy=y):
        return mk(seed).query(X=XX, y=yy, candidates=cands, batch_size=1, return_utilities=True, **kw(C))
    try:
        i0, u0 = q(None)
        i1, u1 = q(unl.copy())
    except Exception as ex:
        return ['EXC ' + repr(ex)[:80]]
    u0 = np.asarray(u0); u1 = np.asarray(u1)
    if not np.allclose(u0, u1, equal_nan=True, rtol=1e-7, atol=1e-9): probs.append('none-vs-idx')
    if feat:
        try:
            i2, u2 = q(X[unl].copy()); u2 = np.asarray(u2)
            if not np.allclose(u0[0][unl], u2[0], equal_nan=True, rtol=1e-6, atol=1e-8): probs.append('none-vs-feat')
        except Exception as ex:
            probs.append('EXC-feat ' + repr(ex)[:60])
    # restriction
    if len(unl) >= 3:
        sub = np.sort(rng.choice(unl, size=rng.randint(1, len(unl)), replace=False))
        try:
            i3, u3 = q(sub); u3 = np.asarray(u3)
            if not np.allclose(u0[0][sub], u3[0][sub], equal_nan=True, rtol=1e-6, atol=1e-8): probs.append('restriction')
        except Exception as ex:
            probs.append('EXC-restr ' + repr(ex)[:60])
    # permutation
    perm = rng.permutation(n)
    try:
        i4, u4 = q(None, X[perm], y[perm]); u4 = np.asarray(u4)
        if not np.allclose(u0[0][perm], u4[0], equal_nan=True, rtol=1e-6, atol=1e-8): probs.append('permutation')
    except Exception as ex:
        probs.append('EXC-perm ' + repr(ex)[:60])
    return probs
names = sys.argv[1].split(',') if sys.argv[1] != 'all' else list(REG)
for name in names:
    h = collections.Counter()
    for s in range(int(sys.argv[2])):
        for p in run(name, s) or ['OK']: h[p] += 1
    print(name, dict(h))
