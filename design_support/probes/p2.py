import numpy as np, warnings, sys, traceback, time
warnings.simplefilter("ignore")
sys.path.insert(0, '/tmp/probe')
from reg import REG, C
from skactiveml.utils import MISSING_LABEL

def mkdata(rng, n, d, mode):
    if mode == 'normal':
        X = rng.randn(n, d)
    elif mode == 'dups':
        base = rng.randn(max(2, n//3), d); X = base[rng.randint(len(base), size=n)]
    elif mode == 'const':
        X = np.ones((n, d)); X[:,0] = rng.randint(0,2,size=n)
    elif mode == 'grid':
        X = rng.randint(0, 3, size=(n, d)).astype(float)
    return X

def check(name, seed, verbose=False):
    mk, kw, kind, feat = REG[name]
    rng = np.random.RandomState(seed)
    n = rng.randint(3, 13); d = rng.randint(1, 4)
    mode = ['normal','dups','const','grid'][rng.randint(4)]
    X = mkdata(rng, n, d, mode)
    if kind == 'reg':
        ytrue = rng.randn(n).round(1)
    else:
        ytrue = rng.randint(0, 3, size=n).astype(float)
    nl = rng.choice([0, 1, 2, n//2, n-1])
    lab = rng.choice(n, size=min(nl, n-1), replace=False)
    y = np.full(n, np.nan); y[lab] = ytrue[lab]
    unl = np.where(np.isnan(y))[0]
    cmode = rng.choice(['none','idx','feat'] if feat else ['none','idx'])
    bs = int(rng.choice([1, 2, 3, len(unl), len(unl)+2]))
    if cmode == 'none': cands = None; cset = set(unl.tolist()); ncols = n
    elif cmode == 'idx':
        k = rng.randint(1, len(unl)+1); sub = rng.choice(unl, size=k, replace=False); cands = sub; cset = set(sub.tolist()); ncols = n
    else:
        k = rng.randint(1, 6); cands = mkdata(rng, k, d, mode); cset = set(range(k)); ncols = k
    qs = mk(int(seed))
    desc = dict(name=name, seed=seed, n=n, d=d, mode=mode, nl=len(lab), cmode=cmode, bs=bs, ncand=len(cset))
    try:
        out = qs.query(X=X.copy(), y=y.copy(), candidates=None if cands is None else cands.copy(), batch_size=bs, return_utilities=True, **kw(C))
    except Exception as e:
        return ('EXC', desc, repr(e)[:200])
    idx, U = out
    probs = []
    k = min(bs, len(cset))
    if not isinstance(idx, np.ndarray): probs.append('idx-not-ndarray:%s' % type(idx).__name__)
    a = np.asarray(idx)
    if a.ndim != 1: probs.append('idx-ndim%d shape%s' % (a.ndim, a.shape)); a = a.ravel()
    if len(a) != k: probs.append('len %d != %d' % (len(a), k))
    if len(set(a.tolist())) != len(a): probs.append('dup %s' % a.tolist())
    if not set(a.tolist()) <= cset: probs.append('non-cand %s cset=%s' % (a.tolist(), sorted(cset)))
    U = np.asarray(U)
    if U.shape != (k, ncols): probs.append('Ushape %s != %s' % (U.shape, (k, ncols)))
    else:
        for i in range(min(k, len(a))):
            sel = set(a[:i].tolist())
            for j in range(ncols):
                should_nan = (j not in cset) or (j in sel)
                if should_nan != bool(np.isnan(U[i, j])):
                    probs.append('nanpattern row%d col%d should_nan=%s val=%s' % (i, j, should_nan, U[i,j])); break
            if not np.isnan(U[i, a[i]]):
                pass
            else: probs.append('chosen-is-nan row%d' % i)
    if probs: return ('BAD', desc, probs[:4])
    return ('OK', desc, None)

if __name__ == '__main__':
    names = sys.argv[1].split(',') if len(sys.argv) > 1 and sys.argv[1] != 'all' else list(REG)
    N = int(sys.argv[2]) if len(sys.argv) > 2 else 40
    for name in names:
        t0 = time.time(); res = {'OK':0,'BAD':0,'EXC':0}; ex = []
        for s in range(N):
            r = check(name, s)
            res[r[0]] += 1
            if r[0] != 'OK' and len(ex) < 4: ex.append(r)
        print(name, res, '%.1fs' % (time.time()-t0))
        for e in ex: print('    ', e)
