import numpy as np, warnings, sys
warnings.simplefilter("ignore")
from skactiveml.pool.multiannotator import IntervalEstimationThreshold
from skactiveml.classifier import ParzenWindowClassifier, SklearnClassifier
from skactiveml.classifier.multiannotator import AnnotatorEnsembleClassifier
from skactiveml.pool import GreedySamplingTarget, ValueOfInformationEER, MonteCarloEER, QueryByCommittee
from skactiveml.regressor import NICKernelRegressor
print("== IET global RNG")
diff = 0
for seed in range(30):
    rng = np.random.RandomState(seed); n, m = 8, 4
    X = rng.randn(n, 2); y = rng.randint(0, 2, (n, m)).astype(float)
    full_unl = rng.rand(n) < 0.5; y[full_unl] = np.nan
    outs = []
    for g in (1, 2, 3, 4):
        np.random.seed(g)
        clf = AnnotatorEnsembleClassifier([('p%d' % i, ParzenWindowClassifier(classes=[0,1])) for i in range(m)], classes=[0,1], voting='soft')
        try: outs.append(IntervalEstimationThreshold(random_state=0).query(X, y, clf=clf, batch_size=3, return_utilities=True))
        except Exception as e: outs.append(('EXC', repr(e)[:60]))
    if any(not (np.array_equal(outs[0][0], o[0]) and np.array_equal(outs[0][1], o[1], equal_nan=True)) for o in outs[1:] if o[0] is not 'EXC'): diff += 1
print('IET global-rng dependent cases:', diff, '/30')
print("== GreedySamplingTarget sentinel")
rng = np.random.RandomState(0); X = rng.randn(8, 2); yt = rng.randn(8).round(1)
ya = np.full(8, np.nan); ya[:3] = yt[:3]; yb = np.full(8, -999.0); yb[:3] = yt[:3]
a = GreedySamplingTarget(random_state=0, n_GSx_samples=0).query(X, ya, reg=NICKernelRegressor(), batch_size=2, return_utilities=True)
try:
    b = GreedySamplingTarget(random_state=0, missing_label=-999.0, n_GSx_samples=0).query(X, yb, reg=NICKernelRegressor(missing_label=-999.0), batch_size=2, return_utilities=True)
    print(a[0], b[0], np.allclose(a[1], b[1], equal_nan=True))
except Exception as e: print('EXC', repr(e)[:100])
print("== VoI subtract_current sentinel")
y1 = np.full(8, np.nan); y1[:4] = [0,1,0,1]; y2 = np.full(8, -1); y2[:4] = [10,20,10,20]
a = ValueOfInformationEER(subtract_current=True, random_state=0).query(X, y1, clf=ParzenWindowClassifier(classes=[0,1]), return_utilities=True)
try:
    b = ValueOfInformationEER(subtract_current=True, random_state=0, missing_label=-1).query(X, y2, clf=ParzenWindowClassifier(classes=[10,20], missing_label=-1), return_utilities=True)
    print(a[0], b[0], np.allclose(a[1], b[1], equal_nan=True), a[1][0][4:], b[1][0][4:])
except Exception as e: print('EXC', repr(e)[:100])
print("== MC EER X_eval sentinel")
try:
    b = MonteCarloEER(random_state=0, missing_label=-1).query(X, y2, clf=ParzenWindowClassifier(classes=[10,20], missing_label=-1), X_eval=X[:3], return_utilities=True); print('ok', b[0])
except Exception as e: print('EXC', repr(e)[:100])
print("== AEC explicit classes")
ym = np.array([[10,20],[20,20],[10,10],[np.nan, 10]], float)
try:
    c = AnnotatorEnsembleClassifier([('a', ParzenWindowClassifier(classes=[10,20])), ('b', ParzenWindowClassifier(classes=[10,20]))], classes=[10,20], voting='soft').fit(X[:4], ym); print(c.predict(X[:4]))
except Exception as e: print('EXC', repr(e)[:100])
try:
    c = AnnotatorEnsembleClassifier([('a', ParzenWindowClassifier()), ('b', ParzenWindowClassifier())], classes=[10,20], voting='soft').fit(X[:4], ym); print('inner None:', c.predict(X[:4]), c.predict_proba(X[:2]))
    c = AnnotatorEnsembleClassifier([('a', ParzenWindowClassifier()), ('b', ParzenWindowClassifier())], classes=[10,20], voting='hard').fit(X[:4], ym); print('inner None hard:', c.predict(X[:4]), c.predict_proba(X[:2]))
except Exception as e: print('EXC inner None', repr(e)[:100])
print("== QBC RandomForest string classes")
from sklearn.ensemble import RandomForestClassifier
ys = np.array(['a','b','c','a','b','c', 'zz', 'zz'], dtype='<U2')
for cls, yy, ml in [(['a','b','c'], ys, 'zz'), ([0,1,2], np.array([0,1,2,0,1,2,np.nan,np.nan]), np.nan), ([10,20,30], np.array([10,20,30,10,20,30,-1,-1]), -1)]:
    try:
        ens = SklearnClassifier(RandomForestClassifier(n_estimators=5, random_state=0), classes=cls, missing_label=ml, random_state=0)
        out = QueryByCommittee(random_state=0, missing_label=ml).query(X, yy, ensemble=ens, return_utilities=True); print(cls, out[0], np.round(out[1][0][6:], 4))
    except Exception as e: print(cls, 'EXC', repr(e)[:100])
