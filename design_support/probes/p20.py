import numpy as np, warnings, sys, collections, re, math
warnings.simplefilter("ignore")
sys.path.insert(0,'/tmp/probe')
from reg import REG, C
from skactiveml.pool import SubSamplingWrapper, ParallelUtilityEstimationWrapper
def run_par(name, seed):
    mk, kw, kind, feat = REG[name]
    if not feat: return ['skip']
    rng = np.random.RandomState(seed)
    n = rng.randint(5, 12); d = 2
    X = rng.randn(n, d); yt = rng.randn(n).round(1) if kind == 'reg' else rng.randint(0, 3, n).astype(float)
    y = np.full(n, np.nan); lab = rng.choice(n, size=rng.choice([0, 2, n//2]), replace=False); y[lab] = yt[lab]
    unl = np.where(np.isnan(y))[0]
    cm = rng.choice(['none', 'idx', 'feat']); cands = None if cm == 'none' else (np.sort(rng.choice(unl, size=rng.randint(1, len(unl)+1), replace=False)) if cm == 'idx' else rng.randn(4, d))
    nj = int(rng.choice([1, 2, 3, -1]))
    try:
        i0, u0 = mk(seed).query(X=X, y=y, candidates=cands, batch_size=1, return_utilities=True, **kw(C))
    except Exception as ex: return ['inner-EXC ' + repr(ex)[:50]]
    try:
        w = ParallelUtilityEstimationWrapper(mk(seed), n_jobs=nj, random_state=seed, parallel_dict={'backend': 'threading'})
        i1, u1 = w.query(X=X, y=y, candidates=cands, batch_size=1, return_utilities=True, **kw(C))
    except Exception as ex: return ['wrap-EXC nj=%d ncand=%s %s' % (nj, len(unl) if cands is None else len(cands), re.sub(r'\d+','#',repr(ex))[:70])]
    probs = []
    if not np.allclose(np.asarray(u0), np.asarray(u1), equal_nan=True, rtol=1e-7, atol=1e-9): probs.append('utilities differ cm=%s' % cm)
    return probs
def run_sub(name, seed):
    mk, kw, kind, feat = REG[name]
    rng = np.random.RandomState(seed)
    n = rng.randint(6, 14); d = 2
    X = rng.randn(n, d); yt = rng.randn(n).round(1) if kind == 'reg' else rng.randint(0, 3, n).astype(float)
    y = np.full(n, np.nan); lab = rng.choice(n, size=rng.choice([0, 2, n//2]), replace=False); y[lab] = yt[lab]
    unl = np.where(np.isnan(y))[0]
    cm = rng.choice(['none', 'idx', 'feat'] if feat else ['none', 'idx'])
    cands = None if cm == 'none' else (np.sort(rng.choice(unl, size=rng.randint(1, len(unl)+1), replace=False)) if cm == 'idx' else rng.randn(5, d))
    ncand = len(unl) if cands is None else len(cands)
    mc = rng.choice([1, 2, 3, 0.3, 0.5, 1.0]); mc = int(mc) if mc >= 1 and rng.rand() < 0.7 and mc == int(mc) else float(mc)
    excl = bool(rng.rand() < 0.5); bs = int(rng.choice([1, 2]))
    size = min(mc, ncand) if isinstance(mc, int) else min(math.ceil(ncand * mc), ncand)
    tag = 'cm=%s excl=%s' % (cm, excl)
    try:
        w = SubSamplingWrapper(mk(seed), max_candidates=mc, exclude_non_subsample=excl, random_state=seed)
        idx, U = w.query(X=X, y=y, candidates=cands, batch_size=bs, return_utilities=True, **kw(C))
    except Exception as ex: return ['wrap-EXC %s %s' % (tag, re.sub(r'\d+','#',repr(ex))[:70])]
    idx = np.asarray(idx).ravel(); U = np.asarray(U); probs = []
    ncols = n if cm != 'feat' else len(cands); cset = set(unl.tolist()) if cm == 'none' else (set(cands.tolist()) if cm == 'idx' else set(range(len(cands))))
    if U.shape[1] != ncols: return ['Ushape ' + tag]
    row = U[0]
    sub = set(np.where(np.isfinite(row) | (np.isposinf(row)))[0].tolist())
    neginf = set(np.where(np.isneginf(row))[0].tolist()); nan = set(np.where(np.isnan(row))[0].tolist())
    if not (sub | neginf) == cset: probs.append('non-nan != candidates ' + tag)
    if len(sub) != size: probs.append('subset size %d != %d %s' % (len(sub), size, tag))
    if not set(idx.tolist()) <= sub: probs.append('selected outside subset ' + tag)
    if len(idx) != min(bs, size): probs.append('len ' + tag)
    # inner utilities on that subset (exclude=False): compare
    if not excl and not probs:
        sc = np.array(sorted(sub)) if cm != 'feat' else cands[np.array(sorted(sub))]
        try:
            i0, u0 = mk(seed).query(X=X, y=y, candidates=sc, batch_size=1, return_utilities=True, **kw(C))
            u0 = np.asarray(u0)[0]
            a = row[np.array(sorted(sub))]; b = u0[np.array(sorted(sub))] if cm != 'feat' else u0
            if not np.allclose(a, b, rtol=1e-7, atol=1e-9): probs.append('utilities != inner ' + tag)
        except Exception as ex: probs.append('inner-EXC')
    return probs
mode = sys.argv[1]
for name in sys.argv[2].split(','):
    h = collections.Counter()
    for s in range(int(sys.argv[3])):
        for p in (run_par if mode == 'par' else run_sub)(name, s) or ['OK']: h[re.sub(r'size \d+ != \d+', 'size', p)] += 1
    print(name, dict(h))
