import numpy as np, hashlib, pickle, types, collections
def fp(o, depth=0, seen=None):
    """structural fingerprint (nested tuples/strings) of arbitrary object"""
    if seen is None: seen = set()
    if depth > 12: return ('deep',)
    if o is None or isinstance(o, (bool, int, str, bytes)): return (type(o).__name__, o)
    if isinstance(o, float): return ('float', 'nan' if o != o else repr(o))
    if isinstance(o, (np.floating, np.integer, np.bool_)): return fp(o.item(), depth, seen)
    if isinstance(o, np.ndarray):
        if o.dtype == object: return ('ndarray-obj', o.shape, tuple(fp(x, depth+1, seen) for x in o.ravel().tolist()))
        return ('ndarray', str(o.dtype), o.shape, hashlib.sha1(np.ascontiguousarray(o).tobytes()).hexdigest())
    if isinstance(o, np.random.RandomState):
        s = o.get_state(); return ('RandomState', s[0], hashlib.sha1(s[1].tobytes()).hexdigest(), s[2], s[3], repr(s[4]))
    if isinstance(o, (list, tuple, collections.deque)): return (type(o).__name__, tuple(fp(x, depth+1, seen) for x in o))
    if isinstance(o, dict): return ('dict', tuple(sorted(((repr(k), fp(v, depth+1, seen)) for k, v in o.items()), key=lambda t: t[0])))
    if isinstance(o, (set, frozenset)): return ('set', tuple(sorted(repr(x) for x in o)))
    if isinstance(o, (types.FunctionType, types.BuiltinFunctionType, types.MethodType, type)): return ('callable', getattr(o, '__module__', ''), getattr(o, '__qualname__', repr(o)))
    if id(o) in seen: return ('cycle',)
    seen = seen | {id(o)}
    d = getattr(o, '__dict__', None)
    if d is not None: return ('obj', type(o).__module__, type(o).__qualname__, fp(d, depth+1, seen))
    try: return ('pickle', hashlib.sha1(pickle.dumps(o)).hexdigest())
    except Exception: return ('repr', repr(o))
def diff(a, b, path=''):
    if a == b: return []
    if isinstance(a, tuple) and isinstance(b, tuple) and len(a) == len(b) and a and a[0] == b[0]:
        out = []
        for i, (x, y) in enumerate(zip(a, b)):
            out += diff(x, y, path + '/%s' % (x[0] if isinstance(x, tuple) and x and isinstance(x[0], str) and a[0]=='dict' else i))
        return out or [(path, a, b)]
    return [(path, str(a)[:80], str(b)[:80])]
