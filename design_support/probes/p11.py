import numpy as np, warnings, sys, collections, re
warnings.simplefilter("ignore")
from sklearn.naive_bayes import GaussianNB
from sklearn.linear_model import LogisticRegression, SGDClassifier, Perceptron
from sklearn.tree import DecisionTreeClassifier
from sklearn.svm import SVC
from sklearn.neighbors import KNeighborsClassifier
from skactiveml.classifier import ParzenWindowClassifier, SklearnClassifier, MixtureModelClassifier, SlidingWindowClassifier
from skactiveml.classifier.multiannotator import AnnotatorEnsembleClassifier, AnnotatorLogisticRegression
def mk(name, classes, cm, seed, m=3):
    kw = dict(classes=classes, cost_matrix=cm, random_state=seed)
    if name == 'PWC': return ParzenWindowClassifier(**kw)
    if name == 'PWC_prior': return ParzenWindowClassifier(class_prior=1.0, **kw)
    if name == 'PWC_nn': return ParzenWindowClassifier(n_neighbors=2, **kw)
    if name == 'MMC': return MixtureModelClassifier(**kw)
    if name == 'SK_NB': return SklearnClassifier(GaussianNB(), **kw)
    if name == 'SK_LR': return SklearnClassifier(LogisticRegression(), **kw)
    if name == 'SK_DT': return SklearnClassifier(DecisionTreeClassifier(random_state=0), **kw)
    if name == 'SK_KNN': return SklearnClassifier(KNeighborsClassifier(n_neighbors=1), **kw)
    if name == 'SK_SGD': return SklearnClassifier(SGDClassifier(loss='log_loss', random_state=0), **kw)
    if name == 'SWC': return SlidingWindowClassifier(ParzenWindowClassifier(classes=classes), window_size=5, **kw)
    if name == 'AEC_soft': return AnnotatorEnsembleClassifier([('e%d'%i, ParzenWindowClassifier(classes=classes)) for i in range(m)], voting='soft', **kw)
    if name == 'AEC_hard': return AnnotatorEnsembleClassifier([('e%d'%i, ParzenWindowClassifier(classes=classes)) for i in range(m)], voting='hard', **kw)
    if name == 'ALR': return AnnotatorLogisticRegression(**kw)
MULTI = ('AEC_soft','AEC_hard','ALR')
def run(name, seed):
    rng = np.random.RandomState(seed)
    n = rng.randint(1, 10); d = rng.randint(1, 3); K = rng.randint(2, 5)
    classes = sorted(rng.choice(50, size=K, replace=False).tolist())
    if rng.rand() < 0.3: classes = [float(c) for c in classes]
    pat = rng.choice(['nolabel','oneclass','some','all'])
    X = rng.randn(n, d); m = 3
    shape = (n, m) if name in MULTI else (n,)
    yt = rng.choice(classes, size=shape).astype(float)
    if pat == 'oneclass': yt[:] = classes[rng.randint(K)]
    y = yt.copy()
    if pat == 'nolabel': y[:] = np.nan
    elif pat == 'some': y[rng.rand(*shape) < 0.5] = np.nan
    cm = None
    if rng.rand() < 0.5:
        cm = rng.rand(K, K).round(2); np.fill_diagonal(cm, 0)
    sw = rng.rand(*shape) if rng.rand() < 0.4 else None
    clf = mk(name, classes, cm, seed)
    Xq = rng.randn(6, d)
    tag = 'pat=%s cm=%s' % (pat, cm is not None)
    try:
        clf.fit(X, y, sw) if sw is not None else clf.fit(X, y)
        P = clf.predict_proba(Xq); yp = clf.predict(Xq)
    except Exception as ex:
        return ['EXC %s %s' % (tag, re.sub(r'\d+', '#', repr(ex))[:80])]
    probs = []
    if P.shape != (6, K): probs.append('Pshape %s' % tag)
    elif not np.isfinite(P).all(): probs.append('P-nonfinite %s' % tag)
    elif (P < -1e-12).any() or not np.allclose(P.sum(1), 1, atol=1e-8): probs.append('P-not-simplex %s' % tag)
    if not np.array_equal(np.asarray(clf.classes_, float), np.asarray(classes, float)): probs.append('classes_-mismatch')
    if not set(np.asarray(yp).tolist()) <= set(np.asarray(clf.classes_).tolist()): probs.append('pred-not-in-classes %s' % tag)
    elif P.shape == (6, K):
        C = cm if cm is not None else 1 - np.eye(K)
        costs = P @ C; idx = np.searchsorted(np.asarray(clf.classes_), yp)
        # predictions must minimise expected cost (tolerance for ties)
        if name not in ('SK_DT','SK_NB','SK_LR','SK_KNN','SK_SGD') or cm is not None or True:
            bad = costs[np.arange(6), idx] > costs.min(1) + 1e-9
            if bad.any(): probs.append('pred-not-cost-optimal %s' % tag)
    if pat == 'nolabel' and name != 'AEC_hard' and P.shape == (6, K) and not np.allclose(P, 1/K): probs.append('nolabel-not-uniform')
    if hasattr(clf, 'predict_freq'):
        try:
            F = clf.predict_freq(Xq)
            if (F < 0).any(): probs.append('freq-negative')
        except Exception as ex: probs.append('freq-EXC ' + repr(ex)[:50])
    return probs
for name in sys.argv[1].split(','):
    h = collections.Counter()
    for s in range(int(sys.argv[2])):
        for p in run(name, s) or ['OK']: h[p] += 1
    print(name)
    for k, v in h.most_common(): print('    ', v, k)
