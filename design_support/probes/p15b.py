import numpy as np, warnings
warnings.simplefilter("ignore")
from skactiveml.regressor import NICKernelRegressor
rng = np.random.RandomState(0)
for nu0 in [0.5, 2.5, 10]:
  for nl in [0,1,2]:
    X = rng.randn(4,1); y = np.full(4, np.nan); y[:nl] = rng.randn(nl)
    m = NICKernelRegressor(kappa_0=0.1, nu_0=nu0).fit(X, y)
    Xq = np.array([[0.],[50.]])
    mu, sd = m.predict(Xq, return_std=True)
    rv = m.predict_target_distribution(Xq)
    print(nu0, nl, mu, sd, rv.kwds['df'])
