import numpy as np, warnings, sys, collections, re, copy
warnings.simplefilter("ignore")
sys.path.insert(0,'/tmp/probe')
from fp import fp, diff
from skactiveml import stream as S
from skactiveml.classifier import ParzenWindowClassifier
QS = {
 'StreamRandomSampling': lambda b, s: S.StreamRandomSampling(budget=b, random_state=s),
 'StreamRandomSampling_noexceed': lambda b, s: S.StreamRandomSampling(budget=b, random_state=s, allow_exceeding_budget=False),
 'PeriodicSampling': lambda b, s: S.PeriodicSampling(budget=b, random_state=s),
 'FixedUncertainty': lambda b, s: S.FixedUncertainty(classes=[0,1], budget=b, random_state=s),
 'VariableUncertainty': lambda b, s: S.VariableUncertainty(budget=b, random_state=s),
 'RandomVariableUncertainty': lambda b, s: S.RandomVariableUncertainty(budget=b, random_state=s),
 'Split': lambda b, s: S.Split(budget=b, random_state=s),
 'StreamProbabilisticAL': lambda b, s: S.StreamProbabilisticAL(budget=b, random_state=s),
 'StreamProbabilisticAL_rbf': lambda b, s: S.StreamProbabilisticAL(budget=b, random_state=s, metric='rbf'),
 'StreamDensityBasedAL': lambda b, s: S.StreamDensityBasedAL(budget=b, random_state=s, window_size=10),
 'CogDQS': lambda b, s: S.CognitiveDualQueryStrategy(budget=b, random_state=s, cognition_window_size=5),
 'CogDQS_ffb': lambda b, s: S.CognitiveDualQueryStrategy(budget=b, random_state=s, cognition_window_size=5, force_full_budget=True),
 'CogDQSRan': lambda b, s: S.CognitiveDualQueryStrategyRan(budget=b, random_state=s, cognition_window_size=5),
 'CogDQSFixUn': lambda b, s: S.CognitiveDualQueryStrategyFixUn(classes=[0,1], budget=b, random_state=s, cognition_window_size=5),
 'CogDQSVarUn': lambda b, s: S.CognitiveDualQueryStrategyVarUn(budget=b, random_state=s, cognition_window_size=5),
 'CogDQSRanVarUn': lambda b, s: S.CognitiveDualQueryStrategyRanVarUn(budget=b, random_state=s, cognition_window_size=5),
}
BASE = ('StreamRandomSampling','StreamRandomSampling_noexceed','PeriodicSampling','FixedUncertainty','VariableUncertainty','Split','StreamProbabilisticAL')
def state(o):
    return fp({k: v for k, v in o.__dict__.items() if k.endswith('_')})
def run(name, seed):
    rng = np.random.RandomState(seed)
    b = float(rng.choice([0.1, 0.3, 0.5, 0.9])); n = 120
    X = rng.randn(n, 2); Xtr = rng.randn(12, 2); ytr = rng.randint(0, 2, 12).astype(float)
    clf = ParzenWindowClassifier(classes=[0,1], random_state=0).fit(Xtr, ytr)
    needs_clf = not name.startswith(('StreamRandom','Periodic'))
    probs = []; results = {}
    for ck in ['one', 'rand']:
        qs = QS[name](b, seed); granted = []; crng = np.random.RandomState(seed); i = 0
        while i < n:
            c = 1 if ck == 'one' else crng.randint(1, 7); lo, hi = i, min(n, i + c); i = hi
            cand = X[lo:hi]
            kw = dict(clf=clf) if needs_clf else {}
            if 'rbf' in name: kw.update(X=Xtr, y=ytr)
            try:
                q1, u1 = qs.query(cand, return_utilities=True, **kw); s1 = state(qs)
                q2, u2 = qs.query(cand, return_utilities=True, **kw); s2 = state(qs)
            except Exception as ex:
                probs.append('query-EXC ' + repr(ex)[:70]); break
            q1 = list(np.asarray(q1).tolist()); q2 = list(np.asarray(q2).tolist())
            if q1 != q2 or not np.array_equal(u1, u2, equal_nan=True): probs.append('query-not-idempotent')
            if s1 != s2: probs.append('query-changes-state:%s' % [d[0] for d in diff(s1, s2)][:2])
            if any(not (0 <= j < hi-lo) for j in q1) or sorted(set(q1)) != q1: probs.append('bad-indices %s' % q1)
            if len(u1) != hi-lo: probs.append('utilities-len')
            try:
                if name.startswith('StreamProbabilisticAL'): qs.update(cand, q1, budget_manager_param_dict={'utilities': u1})
                else: qs.update(cand, q1)
            except Exception as ex:
                probs.append('update-EXC[%s] %s' % (ck, repr(ex)[:70])); break
            granted += [lo + j for j in q1]
        results[ck] = (granted, state(qs))
    if name in BASE and not probs:
        if results['one'][0] != results['rand'][0]: probs.append('chunk-dependent-decisions')
        elif results['one'][1] != results['rand'][1]: probs.append('chunk-dependent-state:%s' % [d[0] for d in diff(results['one'][1], results['rand'][1])][:2])
    return sorted(set(probs))
for name in ((sys.argv[1].split(',') if sys.argv[1] != 'all' else QS) if __name__ == '__main__' else []):
    h = collections.Counter(); ex = {}
    for s in range(int(sys.argv[2])):
        for p in run(name, s) or ['OK']:
            k = re.sub(r'\d+', '#', p)[:90]; h[k] += 1
    print(name, dict(h))
