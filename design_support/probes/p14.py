import numpy as np, warnings, sys, collections, math, re
warnings.simplefilter("ignore")
sys.path.insert(0,'/tmp/probe')
from reg import REG, C
from p2 import mkdata
def run(name, seed):
    mk, kw, kind, feat = REG[name]
    rng = np.random.RandomState(seed)
    n = rng.randint(4, 11); d = rng.randint(1, 3)
    mode = ['normal','normal','dups','grid'][rng.randint(4)]
    X = mkdata(rng, n, d, mode)
    ytrue = rng.randn(n).round(1) if kind == 'reg' else rng.randint(0, 3, size=n).astype(float)
    nl = rng.choice([0, 1, 2, n-1]); lab = rng.choice(n, size=min(nl,n-1), replace=False)
    y = np.full(n, np.nan); y[lab] = ytrue[lab]
    u = int(np.isnan(y).sum()); bs = int(rng.choice([1, 2, 3]))
    qs = mk(seed); seen = set(); cycles = 0
    expected = math.ceil(u / bs)
    try:
        while np.isnan(y).any():
            idx = np.asarray(qs.query(X=X, y=y, batch_size=bs, **kw(C))).ravel()
            cycles += 1
            if len(idx) == 0: return ['empty-result at cycle %d' % cycles]
            for i in idx.tolist():
                if not np.isnan(y[i]): return ['labeled-selected mode=%s' % mode]
                if i in seen: return ['requeried']
            if len(set(idx.tolist())) != len(idx): return ['dup-in-batch mode=%s' % mode]
            seen |= set(idx.tolist()); y[idx] = ytrue[idx]
            if cycles > n + 2: return ['too-many-cycles']
    except Exception as ex:
        return ['EXC cycle%d/%d mode=%s %s' % (cycles, expected, mode, re.sub(r'\d+','#',repr(ex))[:70])]
    if cycles != expected: return ['cycles %d != %d' % (cycles, expected)]
    return []
if __name__ != '__main__': sys.argv = ['x', '', '0']
names = sys.argv[1].split(',') if sys.argv[1] != 'all' else list(REG)
for name in [n for n in names if n]:
    h = collections.Counter()
    for s in range(int(sys.argv[2])):
        for p in run(name, s) or ['OK']: h[re.sub(r'cycle\d+/\d+', 'cycleX', p)] += 1
    print(name, dict(h))
