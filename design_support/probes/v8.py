import numpy as np, warnings, sys, collections, re, signal, traceback
warnings.simplefilter("ignore")
from skactiveml.pool.multiannotator import SingleAnnotatorWrapper
from skactiveml.pool import RandomSampling, UncertaintySampling, CoreSet
from skactiveml.classifier import ParzenWindowClassifier
class TO(Exception): pass
def alarm(*a): raise TO()
signal.signal(signal.SIGALRM, alarm)
for seed in range(300):
    rng = np.random.RandomState(seed)
    n = rng.randint(3, 9); m = rng.randint(2, 5)
    X = rng.randn(n, 2); y = rng.randint(0, 2, (n, m)).astype(float); y[rng.rand(n, m) < 0.6] = np.nan
    if not np.isnan(y).any(): y[0,0] = np.nan
    inner = [RandomSampling(random_state=seed), UncertaintySampling(random_state=seed), CoreSet(random_state=seed)][seed % 3]
    kw = dict(clf=ParzenWindowClassifier(classes=[0,1], random_state=0)) if seed % 3 == 1 else {}
    navail = int(np.isnan(y).sum()); bs = int(rng.choice([1, 2, 3, navail])); aps = int(rng.randint(1, 4))
    A_perf = None if rng.rand() < 0.5 else rng.rand(m)
    signal.alarm(3)
    try:
        idx = SingleAnnotatorWrapper(inner, random_state=seed).query(X, y, batch_size=bs, n_annotators_per_sample=aps, A_perf=A_perf, **kw)
        signal.alarm(0)
    except TO:
        tb = traceback.extract_tb(sys.exc_info()[2])[-2:]
        print('HANG seed', seed, type(inner).__name__, 'bs', bs, 'aps', aps, 'navail', navail, 'n', n, 'm', m, [(t.name, t.lineno) for t in tb]); print(np.isnan(y).astype(int))
    except Exception as ex:
        signal.alarm(0); tb = traceback.extract_tb(sys.exc_info()[2])[-1]
        print('EXC seed', seed, type(inner).__name__, repr(ex)[:80], tb.filename.split('/')[-1], tb.lineno, 'bs', bs, 'navail', navail); print(np.isnan(y).astype(int))
