import numpy as np, warnings, sys, collections, re
warnings.simplefilter("ignore")
sys.path.insert(0,'/tmp/probe')
from reg import REG, C
import reg as R
from skactiveml import pool as P
R.add('EpistemicUS_pre', lambda s: P.EpistemicUncertaintySampling(precompute=True, random_state=s), lambda c: dict(clf=R.clf_pwc([0,1])))
R.add('EpistemicUS2', lambda s: P.EpistemicUncertaintySampling(random_state=s), lambda c: dict(clf=R.clf_pwc([0,1])))
R.add('US_eap', lambda s: P.UncertaintySampling(method='expected_average_precision', random_state=s), lambda c: dict(clf=R.clf_pwc(c)))
INDEP = ['RandomSampling','US_entropy','US_margin_sampling','ProbabilisticAL','QBC_KL_list','QBC_VE_list','GreedyBALD_list','ContrastiveAL','DiscriminativeAL_greedy','Quire','CostEmbeddingAL','MonteCarloEER','VoIEER','EMOC','EMVR','KLDM','GreedySamplingX','GreedySamplingTarget','CoreSet','EpistemicUS_pre','EpistemicUS2','US_eap','EMCM']
def run(name, seed):
    mk, kw, kind, feat = REG[name]
    rng = np.random.RandomState(seed)
    n = rng.randint(4, 11); d = rng.randint(1, 3)
    X = rng.randn(n, d) if rng.rand() < 0.6 else rng.randint(0, 3, (n, d)).astype(float)
    two = name.startswith('Epistemic')
    yt = rng.randn(n).round(1) if kind == 'reg' else rng.randint(0, 2 if two else 3, n).astype(float)
    nl = rng.choice([1, 2, n//2, n-1]); lab = rng.choice(n, size=nl, replace=False)
    y = np.full(n, np.nan); y[lab] = yt[lab]
    k = rng.randint(1, n+1); cands = rng.choice(n, size=k, replace=True)   # arbitrary, with duplicates, incl labeled
    cset = set(cands.tolist()); bs = int(rng.choice([1, 2, len(cset), len(cset)+1]))
    try:
        idx, U = mk(seed).query(X=X, y=y, candidates=cands, batch_size=bs, return_utilities=True, **kw(C))
    except Exception as ex: return ['EXC ' + re.sub(r'\d+','#',repr(ex))[:80]]
    idx = np.asarray(idx); U = np.asarray(U); kk = min(bs, len(cset)); probs = []
    if idx.ndim != 1 or len(idx) != kk: probs.append('len/shape %s vs %d' % (idx.shape, kk))
    if len(set(idx.tolist())) != len(idx): probs.append('dup')
    if not set(idx.tolist()) <= cset: probs.append('non-cand')
    if U.shape != (kk, n): probs.append('Ushape'); return probs
    for i in range(min(kk, len(idx))):
        exp_nan = np.array([(j not in cset) or (j in set(idx[:i].tolist())) for j in range(n)])
        if not np.array_equal(exp_nan, np.isnan(U[i])): probs.append('nanpattern (labeled cands=%s)' % bool(set(lab.tolist()) & cset)); break
        if U[i, idx[i]] != np.nanmax(U[i]) and name != 'RandomSampling': probs.append('not-max')
    return probs
for name in INDEP:
    h = collections.Counter()
    for s in range(40):
        for p in run(name, s) or ['OK']: h[p] += 1
    print(name, dict(h))
