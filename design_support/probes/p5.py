import numpy as np, warnings, sys, pickle, collections, re
warnings.simplefilter("ignore")
sys.path.insert(0,'/tmp/probe')
from reg import REG, C
from fp import fp, diff
from p2 import mkdata
from sklearn.base import clone
def run(name, seed):
    mk, kw, kind, feat = REG[name]
    rng = np.random.RandomState(seed)
    n = rng.randint(5, 11); d = rng.randint(1, 3)
    X = rng.randn(n, d)
    ytrue = rng.randn(n).round(1) if kind == 'reg' else rng.randint(0, 3, size=n).astype(float)
    nl = rng.choice([0, 2, n//2]); lab = rng.choice(n, size=nl, replace=False)
    y = np.full(n, np.nan); y[lab] = ytrue[lab]
    unl = np.where(np.isnan(y))[0]
    cmode = rng.choice(['none','idx','feat'] if feat else ['none','idx'])
    cands = None if cmode=='none' else (rng.choice(unl, size=rng.randint(1,len(unl)+1), replace=False) if cmode=='idx' else rng.randn(3, d))
    qs = mk(seed); kwargs = kw(C)
    sw = np.ones(n)
    import inspect
    sig = inspect.signature(type(qs).query).parameters
    if 'sample_weight' in sig: kwargs['sample_weight'] = sw
    fit_flag = [k for k in sig if k.startswith('fit_')]
    prefit = rng.rand() < 0.5 and fit_flag and nl > 0
    model_key = [k for k in kwargs if k in ('clf','reg','ensemble','discriminator')]
    if prefit:
        m = kwargs[model_key[0]]; m.fit(X, y); kwargs[fit_flag[0]] = False
    before = dict(X=fp(X), y=fp(y), cands=fp(cands), sw=fp(sw), params=fp(qs.get_params(deep=True)), model={k: fp(kwargs[k]) for k in model_key})
    try:
        qs.query(X=X, y=y, candidates=cands, batch_size=2, **kwargs)
    except Exception as e:
        return ['EXC ' + repr(e)[:100]]
    after = dict(X=fp(X), y=fp(y), cands=fp(cands), sw=fp(sw), params=fp(qs.get_params(deep=True)), model={k: fp(kwargs[k]) for k in model_key})
    probs = []
    for k in before:
        if before[k] != after[k]:
            probs.append('%s changed: %s' % (k, [p[0] for p in diff(before[k], after[k])][:3]))
    try: pickle.dumps(qs)
    except Exception as e: probs.append('unpicklable: ' + repr(e)[:60])
    try: clone(qs)
    except Exception as e: probs.append('unclonable: ' + repr(e)[:60])
    return probs
names = sys.argv[1].split(',') if sys.argv[1] != 'all' else list(REG)
for name in names:
    h = collections.Counter()
    for s in range(int(sys.argv[2])):
        for p in run(name, s) or ['OK']: h[p] += 1
    print(name, dict(h))
